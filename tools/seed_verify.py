#!/venv/bin/python
"""
Confirm a candidate seeded change (produced by an independent sub-agent) in a scratch worktree:
  1. the patch applies to /repo HEAD,
  2. the demonstration FAILS with the patch and PASSES without it,
  3. the repository test-suite still passes with the patch.
On success the change is stored under /verif/seeded/<PROP>-<x>/ (patch.diff, demo.py, notes.md, meta.json).

usage: seed_verify.py <src_dir> <PROP> <x>      e.g. seed_verify.py /tmp/mut/out/C09/a C09 a
"""
import json
import os
import shutil
import subprocess
import sys
import time

V = os.path.dirname(os.path.dirname(os.path.abspath(__file__)))


def sh(cmd, cwd=None, env=None, timeout=1200):
    p = subprocess.run(cmd, shell=True, cwd=cwd, env=env, capture_output=True, text=True, timeout=timeout)
    return p.returncode, (p.stdout + p.stderr)[-3000:]


def main():
    src, prop, x = sys.argv[1], sys.argv[2], sys.argv[3]
    wt = f"/tmp/seedv/{prop}-{x}"
    os.makedirs("/tmp/seedv", exist_ok=True)
    sh(f"git -C /repo worktree remove --force {wt}")
    rc, out = sh(f"git -C /repo worktree add -q --detach {wt} HEAD")
    assert rc == 0, out
    env = dict(os.environ, PYTHONPATH=wt, PYTHONHASHSEED="0")
    res = {"property": prop, "variant": x, "source": src, "repo_head": sh("git -C /repo rev-parse --short HEAD")[1].strip()}
    try:
        rc, out = sh(f"/venv/bin/python {src}/demo.py", cwd=wt, env=env, timeout=300)
        res["demo_without_patch"] = rc
        rc, out = sh(f"git apply --3way {src}/patch.diff || git apply {src}/patch.diff", cwd=wt)
        res["apply"] = rc
        if rc != 0:
            res["apply_out"] = out
            res["ok"] = False
            return res
        rc, out = sh(f"/venv/bin/python {src}/demo.py", cwd=wt, env=env, timeout=300)
        res["demo_with_patch"] = rc
        res["demo_with_patch_tail"] = out[-600:]
        t0 = time.time()
        rc, out = sh(
            "/venv/bin/python -m pytest -q -p no:cacheprovider --timeout=900 --deselect tests/clingo_test.py::test_clingo tests",
            cwd=wt,
            env=env,
            timeout=2400,
        )
        res["tests_rc"] = rc
        res["tests_tail"] = out.strip().splitlines()[-1] if out.strip() else ""
        res["tests_s"] = round(time.time() - t0)
        res["ok"] = res["demo_without_patch"] == 0 and res["demo_with_patch"] != 0 and rc == 0
        if res["ok"]:
            dst = os.path.join(V, "seeded", f"{prop}-{x}")
            os.makedirs(dst, exist_ok=True)
            # store the patch as it applies to the current HEAD
            rc, diff = subprocess.getstatusoutput(f"git -C {wt} diff HEAD")
            open(os.path.join(dst, "patch.diff"), "w").write(diff + "\n")
            shutil.copy(os.path.join(src, "demo.py"), os.path.join(dst, "demo.py"))
            if os.path.exists(os.path.join(src, "notes.md")):
                shutil.copy(os.path.join(src, "notes.md"), os.path.join(dst, "notes.md"))
            meta = {
                "property": prop,
                "needs": "see notes.md (written by the independent sub-agent that produced the change)",
                "confirmed": {
                    "repo_head": res["repo_head"],
                    "demo_without_patch_exit": res["demo_without_patch"],
                    "demo_with_patch_exit": res["demo_with_patch"],
                    "test_suite_with_patch": res["tests_tail"],
                    "commands": [
                        "git worktree add /tmp/seedv/<id> HEAD; PYTHONPATH=<wt> /venv/bin/python demo.py  (exit 0)",
                        "git apply patch.diff; PYTHONPATH=<wt> /venv/bin/python demo.py  (exit != 0)",
                        "PYTHONPATH=<wt> /venv/bin/python -m pytest -q --deselect tests/clingo_test.py::test_clingo tests  (all pass)",
                    ],
                },
                "detected_by": None,
            }
            json.dump(meta, open(os.path.join(dst, "meta.json"), "w"), indent=1)
        return res
    finally:
        sh(f"git -C /repo worktree remove --force {wt}")
        print(json.dumps(res))


if __name__ == "__main__":
    main()
