#!/venv/bin/python
"""regenerate MANIFEST.json from the table below (keeps it schema-valid at all times)"""
import json, os, importlib, sys
V = os.path.dirname(os.path.dirname(os.path.abspath(__file__)))
sys.path.insert(0, V)
INFO = json.load(open(os.path.join(V, "tools", "checks.json")))
props = [json.loads(l) for l in open(os.path.join(V, "properties.jsonl"))]
checks, na = [], []
for p in props:
    pid = p["id"]
    inf = INFO.get(pid)
    if inf is None or not os.path.exists(os.path.join(V, "vf", "props", pid.lower() + ".py")):
        na.append({"property_id": pid, "reason": (inf or {}).get("na_reason", "check not built yet in this round (design in DESIGN.md section 3); property-based testing applies, nothing is claimed until the check exists")})
        continue
    checks.append({
        "property_id": pid,
        "quick_cmd": f"./check {pid} --tier quick",
        "thorough_cmd": f"./check {pid} --tier thorough",
        "evidence_file": f"/verif/evidence/{pid}.json",
        "replay_cmd_template": f"./check {pid} --replay {{path}}",
        "engine": "vf",
        "level_claimed": {"category": inf.get("level", "exploration"), "text": inf["text"], "design_ref": f"DESIGN.md section 3, {pid}"},
        "level_note": inf["note"],
        "technique": inf["technique"],
    })
m = {
    "version": 1,
    "setup_cmd": "./setup.sh",
    "hooks": {
        "guard": "BIOBALM_VERIF",
        "enable": "no source hooks are needed: work counting uses sys.monitoring from outside, solver faults are injected by monkey-patching biobalm.trappist_core.Control from the harness; ./check exports BIOBALM_VERIF=1 for completeness",
        "baseline_off_cmd": "cd /repo && /venv/bin/python -m pytest -ra -q -p no:cacheprovider --timeout=900 --continue-on-collection-errors",
        "source_commits": [],
        "add_only": True,
    },
    "engines": [{"name": "vf", "path": "/verif/vf", "serves_properties": [c["property_id"] for c in checks],
                 "kind_free_text": "Hypothesis-generated cases (16 seeded shards, collect-then-shrink) checked against a brute-force explicit-state oracle / differential or metamorphic relation; exhaustive enumeration of the n<=2 sub-domain; committed replays"}],
    "checks": checks,
    "not_applicable": na,
    "notes": "All checks: ./check <ID> [--tier quick|thorough] [--replay FILE]; VERIF_SEED selects the seed; exit 0 held / 1 VIOLATION / 2 harness error or inconclusive. Known findings: /verif/known_findings.txt.",
}
json.dump(m, open(os.path.join(V, "MANIFEST.json"), "w"), indent=1)
