#!/venv/bin/python
"""
Corpus kind 'raise2': networks for which a breadth-first construction of the reference succession diagram raises the
depth of an already expanded node by >= 2 levels in one step while one of that node's children has another parent
(the situation in which depth propagation has to reach several levels).  Oracle only; deterministic.
Run: tools/mine_raise2.py   (committed output: corpus/raise2.json, seed 20261004)
"""
import json, os, random, sys
from multiprocessing import Pool
V = os.path.dirname(os.path.dirname(os.path.abspath(__file__)))
sys.path.insert(0, V)
from vf.oracle import Net, RefSD  # noqa
from tools.mine_corpus import rand_unate  # noqa


def key(sp):
    k = 0
    for i, v in enumerate(sp):
        if v is not None:
            k |= (v + 2) << (2 * i)
    return k


def has_raise2(nj):
    net = Net.from_json(nj)
    ref = RefSD(net)
    depth = {ref.root: 0}
    expanded = set()
    parents = {}
    level = [ref.root]
    seen = {ref.root}
    hit = False
    while level:
        nxt = []
        for x in level:
            expanded.add(x)
            for y in sorted(ref.children[x], key=key):
                parents.setdefault(y, set()).add(x)
                if y not in depth:
                    depth[y] = depth[x] + 1
                else:
                    raise_by = depth[x] + 1 - depth[y]
                    if raise_by >= 1:
                        if raise_by >= 2 and y in expanded and any(len(parents.get(c, ())) >= 2 for c in ref.children[y]):
                            hit = True
                        # propagate (reference semantics)
                        st = [(y, depth[x] + 1)]
                        while st:
                            n, d = st.pop()
                            if depth.get(n, -1) < d:
                                depth[n] = d
                                if n in expanded:
                                    for c in ref.children[n]:
                                        st.append((c, d + 1))
                if y not in seen:
                    seen.add(y)
                    nxt.append(y)
        level = nxt
    return hit


def work(args):
    seed, count = args
    rng = random.Random(seed)
    out = []
    for _ in range(count):
        nj = rand_unate(rng, rng.choice((5, 6, 6)))
        try:
            if has_raise2(nj):
                out.append(nj)
        except Exception:
            pass
    return out


if __name__ == "__main__":
    with Pool(16) as p:
        outs = p.map(work, [(20261004 * 100 + i, 2500) for i in range(64)])
    nets = [x for o in outs for x in o]
    seen, uniq = set(), []
    for nj in nets:
        k = json.dumps(nj, sort_keys=True)
        if k not in seen:
            seen.add(k)
            uniq.append(nj)
    uniq.sort(key=lambda nj: (len(nj["names"]), json.dumps(nj, sort_keys=True)))
    keep = uniq[:: max(1, len(uniq) // 150)][:150]
    json.dump({"kind": "raise2", "nets": keep}, open(os.path.join(V, "corpus", "raise2.json"), "w"))
    print("found", len(uniq), "kept", len(keep))
