#!/venv/bin/python
"""print the markdown table of seeded changes and which checks detect them (from seeded/*/meta.json)"""
import json, os
V = os.path.dirname(os.path.dirname(os.path.abspath(__file__)))
rows = []
for sid in sorted(os.listdir(os.path.join(V, "seeded"))):
    m = json.load(open(os.path.join(V, "seeded", sid, "meta.json")))
    det = m.get("detected_by") or {}
    caught = [p for p, v in sorted(det.items()) if v["exit"] == 1]
    missed = [p for p, v in sorted(det.items()) if v["exit"] == 0]
    first = ""
    if caught:
        b = det[caught[0]]["buckets"]
        first = b[0].split(" count=")[0].replace("bucket=", "") if b else ""
    rows.append((sid, m["needs"].split(". Needs")[0][:150], ", ".join(caught) or "-", ", ".join(missed) or "", first[:70]))
print("| seeded change | what it is | caught by (quick tier, seed 1) | ran but did not flag | first bucket |")
print("|---|---|---|---|---|")
for r in rows:
    print("| " + " | ".join(r) + " |")
