#!/venv/bin/python
"""
Run checks against a stored seeded change without touching /repo: the patch is applied in a
scratch worktree and the check is pointed at it with VF_REPO (evidence/out are redirected).

usage: seed_run.py <seed-id> [PROP ...]      default PROP = the seed's own property
Updates seeded/<seed-id>/meta.json["detected_by"].
"""
import json, os, subprocess, sys, time
V = os.path.dirname(os.path.dirname(os.path.abspath(__file__)))

def sh(cmd, **kw):
    p = subprocess.run(cmd, shell=True, capture_output=True, text=True, **kw)
    return p.returncode, p.stdout + p.stderr

def main():
    sid = sys.argv[1]
    sdir = os.path.join(V, "seeded", sid)
    meta = json.load(open(os.path.join(sdir, "meta.json")))
    props = sys.argv[2:] or [meta["property"]]
    wt = f"/tmp/seedrun/{sid}"
    os.makedirs("/tmp/seedrun", exist_ok=True)
    sh(f"git -C /repo worktree remove --force {wt}")
    rc, out = sh(f"git -C /repo worktree add -q --detach {wt} HEAD")
    assert rc == 0, out
    try:
        rc, out = sh(f"git apply --3way {sdir}/patch.diff || git apply {sdir}/patch.diff", cwd=wt)
        if rc != 0:
            print(sid, "PATCH DOES NOT APPLY", out[-300:]); return
        det = meta.get("detected_by") or {}
        for p in props:
            env = dict(os.environ, VF_REPO=wt, VF_OUT_DIR=f"/tmp/seedrun/out-{sid}", VF_EVIDENCE_DIR=f"/tmp/seedrun/ev-{sid}",
                       VF_NPROC=os.environ.get("VF_NPROC", "16"))
            t0 = time.time()
            rc, out = sh(f"./check {p} --tier quick", cwd=V, env=env)
            buckets = [l.strip()[:200] for l in out.splitlines() if l.strip().startswith("bucket=")]
            det[p] = {"exit": rc, "wall_s": round(time.time() - t0), "buckets": buckets[:6], "repo_head": sh("git -C /repo rev-parse --short HEAD")[1].strip()}
            print(sid, p, "exit", rc, f"{time.time()-t0:.0f}s", buckets[:2])
        meta["detected_by"] = det
        json.dump(meta, open(os.path.join(sdir, "meta.json"), "w"), indent=1)
    finally:
        sh(f"git -C /repo worktree remove --force {wt}")
        sh(f"rm -rf /tmp/seedrun/out-{sid} /tmp/seedrun/ev-{sid}")

if __name__ == "__main__":
    main()
