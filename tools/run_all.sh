#!/bin/sh
# run every registered quick check with the given seed; print one summary line per check
cd "$(dirname "$0")/.."
mkdir -p out
SEED=${1:-1}
TIER=${2:-quick}
for p in C01 C02 C03 C04 C05 C06 C07 C08 C09 C10 C11 C12 C13 C14 C15 C16 C17 C18 C19 C20; do
  VERIF_SEED=$SEED ./check $p --tier $TIER > out/run_all_$p.log 2>&1
  rc=$?
  echo "rc=$rc $(tail -1 out/run_all_$p.log | cut -c1-200)"
  grep -E "^(VIOLATION|HARNESS|INCONCL|  bucket)" out/run_all_$p.log | cut -c1-300
done
