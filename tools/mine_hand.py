#!/venv/bin/python
"""
Corpus kind 'hand': the hand-written rule sets of the repository's tests and docstrings (n <= 6), converted to
truth tables.  Deterministic; committed output corpus/hand.json.
"""
import json, os, re, sys
V = os.path.dirname(os.path.dirname(os.path.abspath(__file__)))
sys.path.insert(0, V); sys.path.insert(0, "/repo")
from biodivine_aeon import BooleanNetwork  # noqa
from vf.adapter import bn_to_net  # noqa

texts = []
for root in ("/repo/tests", "/repo/biobalm"):
    for dp, _, fs in os.walk(root):
        for f in sorted(fs):
            if f.endswith(".py"):
                texts.append(open(os.path.join(dp, f)).read())
blocks = set()
for t in texts:
    for m in re.finditer(r'"""(.*?)"""', t, re.S):
        b = m.group(1).replace('\\"""', "")
        lines = [ln.strip() for ln in b.strip().splitlines()]
        lines = [ln[3:].strip() if ln.startswith("...") else ln for ln in lines]
        lines = [ln for ln in lines if ln and not ln.startswith("targets")]
        if 1 <= len(lines) <= 6 and all(re.match(r"^[A-Za-z_][A-Za-z0-9_]*\s*,\s*.+$", ln) for ln in lines):
            blocks.add("\n".join(lines))
    for m in re.finditer(r"from_rules\(\s*'([^']+)'", t):
        blocks.add(m.group(1).replace("\\\\n", "\n").replace("\\n", "\n"))
nets, seen = [], set()
for b in sorted(blocks):
    try:
        bn = BooleanNetwork.from_bnet(b).infer_valid_graph()
        if bn.variable_count() > 6:
            continue
        net = bn_to_net(bn)
    except BaseException:
        continue
    j = net.to_json()
    j["names"] = [f"v{i}" for i in range(net.n)]
    k = json.dumps(j, sort_keys=True)
    if k not in seen:
        seen.add(k)
        nets.append(j)
json.dump({"kind": "hand", "nets": nets}, open(os.path.join(V, "corpus", "hand.json"), "w"))
print("hand-written networks:", len(nets))
