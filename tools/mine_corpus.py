#!/venv/bin/python
"""
Deterministic corpus miner: scans seeded pseudo-random small networks with the brute-force
oracle and keeps rare shapes.  Output: /verif/corpus/<kind>.json  ({"kind":..., "nets":[...]}).

  maa      - networks with a motif-avoidant attractor
  multi    - an inclusion-minimal trap space containing >= 2 attractors
  diamond  - reference diagram has a node with parents at different depths
  deep     - reference diagram with depth >= 3 and >= 8 nodes
  edge2    - an edge carrying >= 2 stable motifs

Run:  tools/mine_corpus.py [seed]     (committed output was produced with seed 20261003)
"""
import json
import os
import random
import sys
from multiprocessing import Pool

V = os.path.dirname(os.path.dirname(os.path.abspath(__file__)))
sys.path.insert(0, V)
from vf.oracle import Net, RefSD  # noqa


def rand_uniform(rng, n, maxk):
    regs, tabs = [], []
    for i in range(n):
        k = rng.randint(1, min(maxk, n))
        rr = sorted(rng.sample(range(n), k))
        regs.append(rr)
        tabs.append([rng.randint(0, 1) for _ in range(1 << k)])
    return {"names": [f"v{i}" for i in range(n)], "regs": regs, "tables": tabs}


def rand_unate(rng, n):
    regs, tabs = [], []
    for i in range(n):
        k = rng.randint(1, min(3, n))
        rr = sorted(rng.sample(range(n), k))
        if rng.random() < 0.5 and i not in rr:
            rr = sorted(rr[:-1] + [i])
        pol = [rng.randint(0, 1) for _ in rr]
        op = rng.choice(("and", "or", "maj"))
        t = []
        for idx in range(1 << len(rr)):
            bits = [(idx >> (len(rr) - 1 - j)) & 1 for j in range(len(rr))]
            lits = [b if p else 1 - b for b, p in zip(bits, pol)]
            v = all(lits) if op == "and" else any(lits) if op == "or" else sum(lits) * 2 > len(lits)
            t.append(int(v))
        regs.append(rr)
        tabs.append(t)
    return {"names": [f"v{i}" for i in range(n)], "regs": regs, "tables": tabs}


def classify(nj):
    net = Net.from_json(nj)
    kinds = []
    att = net.attractors()
    mts = net.min_traps()
    if any(not any(net.attr_in_space(a, t) for t in mts) for a in att):
        kinds.append("maa")
    if any(sum(1 for a in att if net.attr_in_space(a, t)) >= 2 for t in mts):
        kinds.append("multi")
    if net.n <= 5:
        ref = RefSD(net)
        dep = ref.depth()
        for x in ref.nodes():
            preds = [p for p, c in ref.children.items() if x in c]
            if len({dep[p] for p in preds}) >= 2:
                kinds.append("diamond")
                break
        if max(dep.values()) >= 3 and len(dep) >= 8:
            kinds.append("deep")
        if any(len(m) >= 2 for m in ref.motifs.values()):
            kinds.append("edge2")
    return kinds


def work(args):
    seed, count = args
    rng = random.Random(seed)
    found = {}
    for _ in range(count):
        r = rng.random()
        if r < 0.35:
            nj = rand_uniform(rng, 3, 3)
        elif r < 0.6:
            nj = rand_uniform(rng, 4, 3)
        elif r < 0.75:
            nj = rand_uniform(rng, rng.choice((4, 5)), 2)
        elif r < 0.9:
            nj = rand_unate(rng, rng.choice((3, 4, 5)))
        else:
            nj = rand_uniform(rng, 5, 3)
        for k in classify(nj):
            found.setdefault(k, []).append(nj)
    return found


if __name__ == "__main__":
    seed = int(sys.argv[1]) if len(sys.argv) > 1 else 20261003
    per = int(sys.argv[2]) if len(sys.argv) > 2 else 40000
    with Pool(16) as p:
        outs = p.map(work, [(seed * 1000 + i, per) for i in range(64)])
    allf = {}
    for o in outs:
        for k, v in o.items():
            allf.setdefault(k, []).extend(v)
    caps = {"maa": 400, "multi": 200, "diamond": 150, "deep": 150, "edge2": 150}
    os.makedirs(os.path.join(V, "corpus"), exist_ok=True)
    for k, nets in sorted(allf.items()):
        # de-duplicate, prefer small, keep deterministic order
        seen, uniq = set(), []
        for nj in nets:
            key = json.dumps(nj, sort_keys=True)
            if key not in seen:
                seen.add(key)
                uniq.append(nj)
        uniq.sort(key=lambda nj: (len(nj["names"]), json.dumps(nj, sort_keys=True)))
        small = [x for x in uniq if len(x["names"]) <= 3][: caps[k] // 2]
        rest = [x for x in uniq if len(x["names"]) > 3]
        step = max(1, len(rest) // max(1, caps[k] - len(small)))
        keep = small + rest[::step][: caps[k] - len(small)]
        json.dump({"kind": k, "nets": keep}, open(os.path.join(V, "corpus", f"{k}.json"), "w"))
        print(k, "found", len(uniq), "kept", len(keep))
