#!/bin/sh
# offline setup: hypothesis is normally already present in /venv; install from the wheelhouse otherwise
set -e
cd "$(dirname "$0")"
/venv/bin/python -c "import hypothesis" 2>/dev/null || /venv/bin/pip install --no-index --find-links /opt/veriftools/wheels hypothesis
/venv/bin/python -c "import hypothesis, clingo, biodivine_aeon, networkx; print('setup ok: hypothesis', hypothesis.__version__)"
mkdir -p out evidence
