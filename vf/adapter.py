"""
Bridge between the oracle's truth-table networks and biobalm / AEON objects,
plus canonical dumps of biobalm results.
"""

from __future__ import annotations

import itertools

from biodivine_aeon import BooleanNetwork

from .oracle import Net


# ------------------------------------------------------------------ expressions
def expr_dnf(net: Net, i: int) -> str | None:
    """DNF of minterms over the declared regulators (None for a free input)."""
    t = net.tables[i]
    r = net.regs[i]
    if t is None:
        return None
    if all(x == 0 for x in t):
        if not r:
            return "false"
        # keep the (non-essential) regulators syntactically present
        a = net.names[r[0]]
        return f"({a} & !{a})"
    if all(x == 1 for x in t):
        if not r:
            return "true"
        a = net.names[r[0]]
        return f"({a} | !{a})"
    terms = []
    for idx, val in enumerate(t):
        if val:
            lits = []
            for k, rr in enumerate(r):
                bit = (idx >> (len(r) - 1 - k)) & 1
                lits.append(net.names[rr] if bit else "!" + net.names[rr])
            terms.append("(" + " & ".join(lits) + ")")
    return " | ".join(terms)


def expr_cnf(net: Net, i: int) -> str | None:
    t = net.tables[i]
    r = net.regs[i]
    if t is None:
        return None
    if all(x == 0 for x in t) or all(x == 1 for x in t):
        return expr_dnf(net, i)
    clauses = []
    for idx, val in enumerate(t):
        if not val:
            lits = []
            for k, rr in enumerate(r):
                bit = (idx >> (len(r) - 1 - k)) & 1
                lits.append("!" + net.names[rr] if bit else net.names[rr])
            clauses.append("(" + " | ".join(lits) + ")")
    return " & ".join(clauses)


def expr_shannon(net: Net, i: int, order=None) -> str | None:
    """Shannon expansion in the given regulator order (list of positions in regs[i])."""
    t = net.tables[i]
    r = net.regs[i]
    if t is None:
        return None
    k = len(r)
    if order is None:
        order = list(range(k))

    def rec(fixed, rest):
        # fixed: dict position->bit
        vals = set()
        for idx in range(1 << k):
            if all(((idx >> (k - 1 - p)) & 1) == b for p, b in fixed.items()):
                vals.add(t[idx])
        if vals == {0}:
            return "false"
        if vals == {1}:
            return "true"
        p = rest[0]
        nm = net.names[r[p]]
        hi = rec({**fixed, p: 1}, rest[1:])
        lo = rec({**fixed, p: 0}, rest[1:])
        return f"(({nm} & {hi}) | (!{nm} & {lo}))"

    return rec({}, list(order))


def to_bnet(net: Net, style="dnf", declare_inputs=True) -> str:
    """bnet text. Free inputs (tables None) are written as identity when
    ``declare_inputs`` (bnet cannot express an undeclared, unused variable)."""
    lines = []
    for i in range(net.n):
        if style == "cnf":
            e = expr_cnf(net, i)
        elif style == "shannon":
            e = expr_shannon(net, i)
        else:
            e = expr_dnf(net, i)
        if e is None:
            if not declare_inputs:
                continue
            e = net.names[i]
        lines.append(f"{net.names[i]}, {e}")
    return "\n".join(lines)


def to_bn(net: Net, via="api", style="dnf") -> BooleanNetwork:
    """Build a BooleanNetwork.

    via="api":  variables are created in the oracle's order; free inputs keep
                ``update = None`` (implicit parameter without regulators).
    via="bnet": through bnet text (AEON orders variables lexicographically);
                free inputs become identity functions.
    """
    if via == "bnet":
        return BooleanNetwork.from_bnet(to_bnet(net, style=style)).infer_valid_graph()
    bn = BooleanNetwork(list(net.names))
    for i in range(net.n):
        if net.tables[i] is None:
            continue
        for r in net.regs[i]:
            bn.add_regulation(
                {"source": net.names[r], "target": net.names[i], "essential": False, "sign": None}
            )
    for i in range(net.n):
        if net.tables[i] is None:
            continue
        if style == "cnf":
            e = expr_cnf(net, i)
        elif style == "shannon":
            e = expr_shannon(net, i)
        else:
            e = expr_dnf(net, i)
        bn.set_update_function(net.names[i], e)
    return bn.infer_valid_graph()


def bn_to_net(bn: BooleanNetwork, names=None) -> Net:
    """Truth tables of an AEON network by explicit evaluation of its update
    functions through BDD valuation (used for translation checks; independent of biobalm)."""
    from biodivine_aeon import SymbolicContext

    ctx = SymbolicContext(bn)
    vnames = [bn.get_variable_name(v) for v in bn.variables()]
    if names is None:
        names = vnames
    pos = {nm: k for k, nm in enumerate(names)}
    regs = []
    tabs = []
    for nm in names:
        v = bn.find_variable(nm)
        uf = bn.get_update_function(v)
        if uf is None:
            regs.append([])
            tabs.append(None)
            continue
        bdd = ctx.mk_update_function(uf)
        sup = sorted(pos[ctx.bdd_variable_set().get_variable_name(x)] for x in bdd.support_set())
        t = []
        for vals in itertools.product((0, 1), repeat=len(sup)):
            val = {names[p]: bool(b) for p, b in zip(sup, vals)}
            r = bdd.r_restrict(val)
            assert r.is_true() or r.is_false()
            t.append(1 if r.is_true() else 0)
        regs.append(sup)
        tabs.append(tuple(t))
    return Net(names, regs, tabs)


# ------------------------------------------------------------------ dumps
def canon_space(d) -> tuple:
    return tuple(sorted((str(k), int(v)) for k, v in d.items()))


def dump_sd(sd, with_attr=True, with_motif_order=True):
    """Structural dump of a SuccessionDiagram using only public accessors."""
    out = []
    for i in sd.node_ids():
        d = sd.node_data(i)
        succ = None
        if d["expanded"]:
            succ = []
            for j in sorted(sd.node_successors(i)):
                ms = [canon_space(m) for m in sd.edge_all_stable_motifs(i, j)]
                if not with_motif_order:
                    ms = sorted(ms)
                succ.append((j, canon_space(sd.edge_stable_motif(i, j)), ms))
        rec = {
            "id": i,
            "space": canon_space(d["space"]),
            "depth": d["depth"],
            "expanded": bool(d["expanded"]),
            "skipped": bool(d["skipped"]),
            "succ": succ,
        }
        if with_attr:
            rec["seeds"] = (
                None if d["attractor_seeds"] is None else [canon_space(s) for s in d["attractor_seeds"]]
            )
            rec["cands"] = (
                None
                if d["attractor_candidates"] is None
                else [canon_space(s) for s in d["attractor_candidates"]]
            )
            rec["sets"] = (
                None
                if d["attractor_sets"] is None
                else [vertex_set_states(sd, vs) for vs in d["attractor_sets"]]
            )
        out.append(rec)
    return out


def vertex_set_states(sd, vs):
    """enumerate an AEON VertexSet as a sorted list of canonical full states"""
    res = []
    for v in vs.items():
        dd = v.to_dict()
        res.append(tuple(sorted((sd.network.get_variable_name(k), int(b)) for k, b in dd.items())))
    return sorted(res)


def to_bn_builder(net: Net) -> BooleanNetwork:
    """Build a BooleanNetwork through the UpdateFunction constructor API only (no expression parsing),
    so that arbitrary variable names (needing sanitization) can be used."""
    from biodivine_aeon import UpdateFunction

    bn = BooleanNetwork(list(net.names))
    for i in range(net.n):
        if net.tables[i] is None:
            continue
        for r in net.regs[i]:
            bn.add_regulation({"source": net.names[r], "target": net.names[i], "essential": False, "sign": None})
    for i in range(net.n):
        t = net.tables[i]
        r = net.regs[i]
        if t is None:
            continue
        if all(x == 0 for x in t):
            f = UpdateFunction.mk_const(bn, False)
        elif all(x == 1 for x in t):
            f = UpdateFunction.mk_const(bn, True)
        else:
            terms = []
            for idx, val in enumerate(t):
                if not val:
                    continue
                lits = []
                for k, rr in enumerate(r):
                    v = UpdateFunction.mk_var(bn, net.names[rr])
                    lits.append(v if (idx >> (len(r) - 1 - k)) & 1 else UpdateFunction.mk_not(v))
                term = lits[0]
                for x in lits[1:]:
                    term = UpdateFunction.mk_and(term, x)
                terms.append(term)
            f = terms[0]
            for x in terms[1:]:
                f = UpdateFunction.mk_or(f, x)
        bn.set_update_function(net.names[i], f)
    return bn.infer_valid_graph()
