"""
Hypothesis strategies.  Every strategy yields plain JSON-able data so that a case can
be stored as a replay file and re-executed without Hypothesis.

network (``netj``) = {"names": [...], "regs": [[idx...]...], "tables": [[0/1...] | None, ...]}
"""

from __future__ import annotations

import json
import os

from hypothesis import strategies as st

from .oracle import Net

CORPUS_DIR = os.path.join(os.path.dirname(os.path.dirname(os.path.abspath(__file__))), "corpus")


def default_names(n, prefix="v"):
    return [f"{prefix}{i}" for i in range(n)]


def _bits(x, k):
    return [(x >> (k - 1 - j)) & 1 for j in range(k)]


# ------------------------------------------------------------------ families
@st.composite
def uniform_k(draw, min_n=1, max_n=6, max_k=3):
    n = draw(st.integers(min_n, max_n))
    regs, tabs = [], []
    for i in range(n):
        k = draw(st.integers(0, min(max_k, n)))
        rr = sorted(draw(st.lists(st.integers(0, n - 1), min_size=k, max_size=k, unique=True)))
        t = draw(st.integers(0, (1 << (1 << k)) - 1))
        regs.append(rr)
        tabs.append(_bits(t, 1 << k))
    return {"names": default_names(n), "regs": regs, "tables": tabs}


@st.composite
def dense(draw, min_n=2, max_n=4):
    """every variable may read every variable (non-monotonic, large NFVS)"""
    n = draw(st.integers(min_n, max_n))
    regs, tabs = [], []
    for i in range(n):
        t = draw(st.integers(0, (1 << (1 << n)) - 1))
        regs.append(list(range(n)))
        tabs.append(_bits(t, 1 << n))
    return {"names": default_names(n), "regs": regs, "tables": tabs}


def _unate_table(rr, pol, op):
    k = len(rr)
    t = []
    for idx in range(1 << k):
        bits = _bits(idx, k)
        lits = [b if p else 1 - b for b, p in zip(bits, pol)]
        if op == "and":
            v = int(all(lits))
        elif op == "or":
            v = int(any(lits))
        elif op == "maj":
            v = int(sum(lits) * 2 > len(lits))
        elif op == "nc2":  # nested canalizing, dual form: l0 and (l1 or (l2 and ...))
            v = lits[-1]
            for j in range(k - 2, -1, -1):
                v = (lits[j] & v) if (j % 2 == 0) else (lits[j] | v)
        else:  # nested canalizing: l0 or (l1 and (l2 or ...))
            v = lits[-1]
            for j in range(k - 2, -1, -1):
                v = (lits[j] | v) if (j % 2 == 0) else (lits[j] & v)
        t.append(int(v))
    return t


@st.composite
def motif_rich(draw, min_n=2, max_n=6):
    """AND/OR/majority/nested-canalizing of 1-3 literals, biased to positive self/mutual loops"""
    n = draw(st.integers(min_n, max_n))
    regs, tabs = [], []
    for i in range(n):
        k = draw(st.integers(1, min(3, n)))
        rr = sorted(draw(st.lists(st.integers(0, n - 1), min_size=k, max_size=k, unique=True)))
        selfloop = draw(st.booleans())
        if selfloop and i not in rr:
            rr = sorted(rr[:-1] + [i])
        pol = [draw(st.sampled_from((1, 1, 0))) for _ in rr]
        if i in rr and draw(st.integers(0, 3)) > 0:
            pol[rr.index(i)] = 1
        op = draw(st.sampled_from(("and", "or", "maj", "nc", "nc2")))
        regs.append(rr)
        tabs.append(_unate_table(rr, pol, op))
    return {"names": default_names(n), "regs": regs, "tables": tabs}


@st.composite
def with_inputs(draw, base, max_extra=3):
    """decorate a network with sources / free inputs / constants / redundant identities"""
    nj = draw(base)
    n = len(nj["names"])
    regs = [list(r) for r in nj["regs"]]
    tabs = [None if t is None else list(t) for t in nj["tables"]]
    kinds = draw(
        st.lists(
            st.sampled_from(("ident", "free", "true", "false", "semconst", "semident")),
            min_size=1,
            max_size=max_extra,
        )
    )
    for kind in kinds:
        i = draw(st.integers(0, n - 1))
        if kind == "ident":
            regs[i], tabs[i] = [i], [0, 1]
        elif kind == "free":
            regs[i], tabs[i] = [], None
        elif kind == "true":
            regs[i], tabs[i] = [], [1]
        elif kind == "false":
            regs[i], tabs[i] = [], [0]
        elif kind == "semconst":
            j = draw(st.integers(0, n - 1))
            c = draw(st.integers(0, 1))
            regs[i], tabs[i] = [j], [c, c]
        elif kind == "semident":
            j = draw(st.integers(0, n - 1))
            if j == i:
                regs[i], tabs[i] = [i], [0, 1]
            else:
                rr = sorted([i, j])
                # f = x_i (x_j non-essential)
                pi = rr.index(i)
                tabs[i] = [_bits(idx, 2)[pi] for idx in range(4)]
                regs[i] = rr
    return {"names": nj["names"], "regs": regs, "tables": tabs}


# ------------------------------------------------------------------ corpus
_CORPUS_CACHE = {}


def load_corpus(kind=None):
    """list of netj from /verif/corpus/*.json (each file: {"kind":..., "nets":[netj...]})"""
    if not _CORPUS_CACHE:
        allnets = []
        if os.path.isdir(CORPUS_DIR):
            for fn in sorted(os.listdir(CORPUS_DIR)):
                if fn.endswith(".json"):
                    with open(os.path.join(CORPUS_DIR, fn)) as f:
                        j = json.load(f)
                    for nj in j["nets"]:
                        allnets.append((j["kind"], nj))
        _CORPUS_CACHE["all"] = allnets
    if kind is None:
        return [nj for _, nj in _CORPUS_CACHE["all"]]
    return [nj for k, nj in _CORPUS_CACHE["all"] if k == kind or k.startswith(kind)]


def cores(kind=None, max_n=None):
    """sample a mined core.  kind=None: first pick a kind uniformly (so the rare kinds
    are not drowned by the frequent ones), then a network of that kind."""
    if kind is None:
        load_corpus()
        kinds = sorted({k for k, _ in _CORPUS_CACHE["all"]})
        alts = [cores(k, max_n) for k in kinds]
        alts = [a for a in alts if a is not None]
        return st.one_of(*alts) if alts else None
    if isinstance(kind, (list, tuple)):
        alts = [cores(k, max_n) for k in kind]
        alts = [a for a in alts if a is not None]
        return st.one_of(*alts) if alts else None
    nets = load_corpus(kind)
    if max_n is not None:
        nets = [x for x in nets if len(x["names"]) <= max_n]
    if not nets:
        return None
    return st.sampled_from(nets)


# ------------------------------------------------------------------ combinators
def _rename(nj, names):
    return {"names": list(names), "regs": nj["regs"], "tables": nj["tables"]}


def union(a, b):
    na = len(a["names"])
    nb = len(b["names"])
    regs = [list(r) for r in a["regs"]] + [[x + na for x in r] for r in b["regs"]]
    tabs = list(a["tables"]) + list(b["tables"])
    return {"names": default_names(na + nb), "regs": regs, "tables": tabs}


@st.composite
def cascade(draw, up, down, max_n):
    """downstream variables additionally read upstream ones (gate AND/OR with an upstream literal)"""
    a = draw(up)
    b = draw(down)
    if len(a["names"]) + len(b["names"]) > max_n:
        return a
    u = union(a, b)
    na = len(a["names"])
    regs = [list(r) for r in u["regs"]]
    tabs = [None if t is None else list(t) for t in u["tables"]]
    for i in range(na, len(u["names"])):
        if tabs[i] is None or len(regs[i]) >= 3:
            continue
        if not draw(st.booleans()):
            continue
        g = draw(st.integers(0, na - 1))
        pol = draw(st.integers(0, 1))
        op = draw(st.sampled_from(("and", "or")))
        old_r, old_t = regs[i], tabs[i]
        new_r = sorted(old_r + [g])
        k = len(new_r)
        nt = []
        for idx in range(1 << k):
            bits = dict(zip(new_r, _bits(idx, k)))
            oi = 0
            for r in old_r:
                oi = (oi << 1) | bits[r]
            lit = bits[g] if pol else 1 - bits[g]
            nt.append((old_t[oi] & lit) if op == "and" else (old_t[oi] | lit))
        regs[i], tabs[i] = new_r, nt
    return {"names": u["names"], "regs": regs, "tables": tabs}


@st.composite
def gated(draw, base, max_n):
    """add a source g; every variable of the core becomes f' = (g & f) | (!g & c):
    buries the core below one valuation of a source variable"""
    a = draw(base)
    n = len(a["names"])
    if n + 1 > max_n:
        return a
    g = n
    regs, tabs = [], []
    for i in range(n):
        if a["tables"][i] is None:
            regs.append([])
            tabs.append(None)
            continue
        c = draw(st.integers(0, 1))
        old_r, old_t = a["regs"][i], a["tables"][i]
        new_r = list(old_r) + [g]
        nt = []
        for idx in range(1 << len(new_r)):
            bits = _bits(idx, len(new_r))
            gi = bits[-1]
            oi = idx >> 1
            nt.append(old_t[oi] if gi else c)
        regs.append(new_r)
        tabs.append(nt)
    regs.append([g])
    tabs.append([0, 1])
    return {"names": default_names(n + 1), "regs": regs, "tables": tabs}


@st.composite
def switched(draw, max_n):
    """a source variable S selects between two different motif-rich rule sets over the SAME variables:
    f_i' = (S & a_i) | (!S & b_i).  The sibling trap spaces S=0 / S=1 then fix the same variables by different dynamics."""
    m = draw(st.integers(2, max(2, max_n - 1)))
    a = draw(motif_rich(min_n=m, max_n=m))
    b = draw(motif_rich(min_n=m, max_n=m))
    g = m
    regs, tabs = [], []
    for i in range(m):
        ra, ta = a["regs"][i], a["tables"][i]
        rb, tb = b["regs"][i], b["tables"][i]
        new_r = sorted(set(ra) | set(rb)) + [g]
        k = len(new_r)
        nt = []
        for idx in range(1 << k):
            bits = dict(zip(new_r, _bits(idx, k)))
            ia = 0
            for r in ra:
                ia = (ia << 1) | bits[r]
            ib = 0
            for r in rb:
                ib = (ib << 1) | bits[r]
            nt.append(ta[ia] if bits[g] else tb[ib])
        regs.append(new_r)
        tabs.append(nt)
    regs.append([g])
    tabs.append([0, 1])
    return {"names": default_names(m + 1), "regs": regs, "tables": tabs}


@st.composite
def unions(draw, a, b, max_n):
    x = draw(a)
    y = draw(b)
    if len(x["names"]) + len(y["names"]) > max_n:
        return x
    return union(x, y)


@st.composite
def permuted(draw, base):
    """random permutation of the variable order (names follow their variables)"""
    a = draw(base)
    n = len(a["names"])
    perm = draw(st.permutations(list(range(n))))  # new position p holds old variable perm[p]
    inv = {old: new for new, old in enumerate(perm)}
    regs, tabs = [], []
    for new in range(n):
        old = perm[new]
        r_old = a["regs"][old]
        t_old = a["tables"][old]
        if t_old is None:
            regs.append([])
            tabs.append(None)
            continue
        r_new = sorted(inv[x] for x in r_old)
        k = len(r_new)
        nt = []
        for idx in range(1 << k):
            bits = dict(zip(r_new, _bits(idx, k)))
            oi = 0
            for x in r_old:
                oi = (oi << 1) | bits[inv[x]]
            nt.append(t_old[oi])
        regs.append(r_new)
        tabs.append(nt)
    return {"names": default_names(n), "regs": regs, "tables": tabs}


# ------------------------------------------------------------------ the mix
def bistable():
    """small bistable / multistable components used to compose with cores"""
    comps = [
        {"names": ["v0", "v1"], "regs": [[0, 1], [0, 1]], "tables": [[0, 1, 1, 1], [0, 0, 0, 1]]},  # b0|b1 ; b0&b1
        {"names": ["v0", "v1"], "regs": [[1], [0]], "tables": [[0, 1], [0, 1]]},  # A,B ; B,A
        {"names": ["v0"], "regs": [[0]], "tables": [[0, 1]]},  # source
        {"names": ["v0", "v1"], "regs": [[1], [0]], "tables": [[1, 0], [1, 0]]},  # mutual inhibition
        {"names": ["v0", "v1"], "regs": [[1], [0]], "tables": [[0, 1], [1, 0]]},  # negative cycle
    ]
    return st.sampled_from(comps)


def networks(max_n=6, core_weight=3, kinds=None, min_n=1):
    """the default mixture"""
    small = max(2, max_n - 2)
    base = st.one_of(
        uniform_k(min_n=min_n, max_n=max_n, max_k=3),
        uniform_k(min_n=min_n, max_n=max_n, max_k=2),
        motif_rich(min_n=max(2, min_n), max_n=max_n),
        dense(min_n=2, max_n=min(4, max_n)),
        with_inputs(st.one_of(uniform_k(min_n=max(2, min_n), max_n=max_n), motif_rich(max_n=max_n))),
    )
    core = cores(kinds, max_n=max_n)
    alts = [base, base]
    core_small = cores(kinds, max_n=small)
    if core is not None:
        comb = [core, core, permuted(core)]
        if core_small is not None:
            comb += [
                unions(core_small, bistable(), max_n),
                unions(bistable(), core_small, max_n),
                gated(core_small, max_n),
                cascade(bistable(), core_small, max_n),
                cascade(core_small, motif_rich(max_n=2), max_n),
            ]
        alts += [st.one_of(*comb)] * core_weight
    alts.append(unions(motif_rich(max_n=small), motif_rich(max_n=3), max_n))
    if max_n >= 5:
        # an input selecting between two rule sets over the same variables, next to an independent component
        alts.append(unions(switched(max(3, max_n - 2)), bistable(), max_n))
    alts.append(cascade(motif_rich(max_n=3), uniform_k(min_n=1, max_n=3), max_n))
    return st.one_of(*alts)


# ------------------------------------------------------------------ spaces
@st.composite
def spaces_of(draw, n, p_fixed=0.5, min_free=0):
    vals = [draw(st.sampled_from((None, 0, 1) if p_fixed >= 0.5 else (None, None, 0, 1))) for _ in range(n)]
    free = [i for i, v in enumerate(vals) if v is None]
    while len(free) < min_free:
        i = draw(st.sampled_from([k for k in range(n) if vals[k] is not None]))
        vals[i] = None
        free.append(i)
    return vals


def classify_net(net: Net):
    """structural labels of a network (for the evidence histogram)"""
    labels = []
    labels.append(f"n={net.n}")
    att = net.attractors()
    if any(len(a) > 1 for a in att):
        labels.append("complex_attr")
    if len(att) >= 2:
        labels.append("multi_attr")
    mts = net.min_traps()
    if any(net.is_maa(a) for a in att):
        labels.append("maa")
    if any(sum(1 for a in att if net.attr_in_space(a, t)) >= 2 for t in mts):
        labels.append("multi_attr_min_trap")
    if net.sources():
        labels.append("sources")
    if any(t is None for t in net.tables):
        labels.append("free_input")
    if any(net.global_const(i) is not None for i in range(net.n)):
        labels.append("constant")
    return labels
