"""C18 - results compose across independent and input-conditioned sub-networks."""

from __future__ import annotations

import itertools
import os
from collections import Counter

from hypothesis import strategies as st

from .. import gen, sdcheck
from ..adapter import to_bn
from ..bb import REPO, BBError, Nonterminating, bnet_text, call, fmt_space, full_state, net_of, sd_space
from ..oracle import Net
from ..runner import Result

ID = "C18"
LEVEL = "exploration"
BUDGET = {"quick": {"cases": 2600, "soft_deadline": 200}, "thorough": {"cases": 40000, "soft_deadline": 1500}}
RULE = (
    "case kinds: (a) union = two generated networks (n<=4 each, cores weighted) under interleaved variable names: minimal trap "
    "spaces of the union (expand_bfs / block / scc) = pairwise unions of the parts' brute-force minimal trap spaces, build() "
    "seeds hit every product of part attractors exactly once; (b) inputs = network with 1-3 source variables (declared or "
    "update-less) and EVERY valuation: expand_bfs of the network with the sources fixed equals (spaces, edges, motif multisets) "
    "the sub-diagram of the free-input diagram below the node for that valuation, and the attractors found below it are the same; "
    "(c) model = repository model (<=20 variables quick, <=60 thorough) with generated input valuation: build() seeds lie in "
    "pairwise different attractors of AEON's independent Attractors.attractors and cover all of them; non-trivial = both parts "
    "have >=2 attractors / the valuation changes the attractor set / the model has >=2 attractors or a complex one"
)
ASSUMPTIONS = [
    "clause (c) trusts AEON's symbolic attractor computation as the independent reference; models on which biobalm exceeds the work "
    "bound are counted as inconclusive, not as violations",
]
MODEL_DIR = os.path.join(REPO, "models", "bbm-bnet-inputs-true")


def _small_models(limit):
    from .c10 import _model_size

    return [m for m in sorted(os.listdir(MODEL_DIR)) if m.endswith(".bnet") and _model_size(m) <= limit]


@st.composite
def _case(draw, tier):
    k = draw(st.integers(0, 19))
    if k < 2:
        return {
            "kind": "model",
            "model": draw(st.sampled_from(_small_models(20 if tier == "quick" else 60))),
            "flip_inputs": draw(st.lists(st.integers(0, 400), max_size=4)),
        }
    if k < 11:
        a = draw(gen.networks(max_n=4, core_weight=3, kinds=("maa", "multi", "edge2")))
        b = draw(gen.networks(max_n=4 if tier != "quick" else 3, core_weight=3, kinds=("maa", "multi", "edge2")))
        return {
            "kind": "union",
            "net": a,
            "net2": b,
            "interleave": draw(st.booleans()),
            "strategy": draw(st.sampled_from(("bfs", "block", "scc"))),
        }
    base = draw(gen.networks(max_n=5, core_weight=2, kinds=("maa", "deep", "edge2")))
    n = len(base["names"])
    srcs = sorted(draw(st.sets(st.integers(0, n - 1), min_size=1, max_size=min(3, n))))
    return {"kind": "inputs", "net": base, "source_vars": srcs, "free": [draw(st.booleans()) for _ in srcs]}


def strategy(tier):
    return _case(tier)


def describe(case):
    if case["kind"] == "model":
        return f"model {case['model']} flip_inputs={case['flip_inputs']}"
    if case["kind"] == "union":
        return f"A: {bnet_text(case['net'])} || B: {bnet_text(case['net2'])} | interleave={case['interleave']} strategy={case['strategy']}"
    return f"{bnet_text(case['net'])} | sources={case['source_vars']} update-less={case['free']}"


# ------------------------------------------------------------------ (a) union
def _run_union(case, res):
    from biobalm import SuccessionDiagram

    A = Net.from_json(case["net"])
    B = Net.from_json(case["net2"])
    na, nb = A.n, B.n
    an = [f"a{i}" for i in range(na)]
    bnm = [f"b{i}" for i in range(nb)]
    if case["interleave"]:
        # interleaved lexicographic order: x0_a, x0_b, x1_a, ...
        an = [f"x{i}a" for i in range(na)]
        bnm = [f"x{i}b" for i in range(nb)]
    names = an + bnm
    regs = [list(r) for r in A.regs] + [[x + na for x in r] for r in B.regs]
    tabs = list(A.tables) + list(B.tables)
    U = Net(names, regs, tabs)
    via = "api" if any(t is None for t in U.tables) else "bnet"
    sd = call(SuccessionDiagram, to_bn(U, via=via))
    strat = case["strategy"]
    r = call({"bfs": sd.expand_bfs, "block": sd.expand_block, "scc": sd.expand_scc}[strat])
    if r is not True:
        res.violate(f"union:{strat}:did-not-complete", ret=str(r))
        return
    got = Counter(sd_space(U, sd.node_data(i)["space"]) for i in sd.minimal_trap_spaces())
    exp = Counter(tuple(x) + tuple(y) for x in A.min_traps() for y in B.min_traps())
    if got != exp:
        res.violate(
            f"union:{strat}:minimal-trap-spaces-not-the-products",
            missing=[fmt_space(U, s) for s in (exp - got)][:3],
            spurious=[fmt_space(U, s) for s in (got - exp)][:3],
        )
    atta, attb = A.attractors(), B.attractors()
    # attractors found after the chosen strategy: every product at least once (exactly once is C01's business;
    # expand_scc has a known over-count there)
    got_after = call(sd.expanded_attractor_seeds)
    seen_pairs = set()
    for i, ss in got_after.items():
        for s in ss:
            st_ = full_state(U, s)
            if st_ is None:
                continue
            xa = A.attractor_of_state(st_ & ((1 << na) - 1))
            xb = B.attractor_of_state(st_ >> na)
            if xa is not None and xb is not None:
                seen_pairs.add((atta.index(xa), attb.index(xb)))
    lost = [(pa, pb) for pa in range(len(atta)) for pb in range(len(attb)) if (pa, pb) not in seen_pairs]
    if lost:
        res.violate(f"union:{strat}:product-attractor-not-found-after-strategy", lost=len(lost), total=len(atta) * len(attb))
    sd2 = call(SuccessionDiagram, to_bn(U, via=via))
    call(sd2.build)
    hits = Counter()
    for i in sd2.expanded_ids():
        for s in sd2.node_data(i)["attractor_seeds"] or []:
            st_ = full_state(U, s)
            if st_ is None:
                res.violate("union:seed-not-full-state", seed=str(s))
                continue
            sa = st_ & ((1 << na) - 1)
            sb = st_ >> na
            xa = A.attractor_of_state(sa)
            xb = B.attractor_of_state(sb)
            if xa is None or xb is None:
                res.violate("union:seed-does-not-project-into-part-attractors", seed=U.state_tuple(st_), in_A=xa is not None, in_B=xb is not None)
                continue
            hits[(atta.index(xa), attb.index(xb))] += 1
    for pa in range(len(atta)):
        for pb in range(len(attb)):
            k = hits[(pa, pb)]
            if k != 1:
                res.violate(
                    "union:product-attractor-not-exactly-once",
                    times=k,
                    part_sizes=[len(atta[pa]), len(attb[pb])],
                    n_attr=[len(atta), len(attb)],
                )
                return
    res.nontrivial = len(atta) >= 2 and len(attb) >= 2
    res.label("union", f"strategy={strat}", f"n={na + nb}")
    if any(len(x) > 1 for x in atta) and any(len(x) > 1 for x in attb):
        res.label("both-parts-complex")


# ------------------------------------------------------------------ (b) inputs
def _dump_below(sd, net, start):
    spaces = sdcheck.node_spaces(sd, net)
    seen = {start}
    st_ = [start]
    while st_:
        x = st_.pop()
        for y in sd.dag.successors(x):
            if y not in seen:
                seen.add(y)
                st_.append(y)
    nodes = {spaces[i] for i in seen}
    edges = {}
    for a in seen:
        for b in sd.dag.successors(a):
            edges[(spaces[a], spaces[b])] = Counter(sd_space(net, m) for m in sd.edge_all_stable_motifs(a, b))
    return nodes, edges, seen


def _attr_hits(sd, net, ids):
    att = net.attractors()
    c = Counter()
    for i in ids:
        for s in call(sd.node_attractor_seeds, i, compute=True):
            st_ = full_state(net, s)
            a = net.attractor_of_state(st_) if st_ is not None else None
            c[att.index(a) if a is not None else "not-an-attractor"] += 1
    return c


def _run_inputs(case, res):
    from biobalm import SuccessionDiagram

    nj = case["net"]
    n = len(nj["names"])
    srcs = case["source_vars"]
    regs = [list(r) for r in nj["regs"]]
    tabs = [None if t is None else list(t) for t in nj["tables"]]
    for s, free in zip(srcs, case["free"]):
        if free:
            regs[s], tabs[s] = [], None
        else:
            regs[s], tabs[s] = [s], [0, 1]
    net = Net(nj["names"], regs, tabs)
    sd = call(SuccessionDiagram, to_bn(net, via="api"))
    if call(sd.expand_bfs) is not True:
        res.violate("inputs:bfs-did-not-complete")
        return
    spaces = sdcheck.node_spaces(sd, net)
    all_sources = net.sources()
    changed = False
    seen_att = []
    for vals in itertools.product((0, 1), repeat=len(all_sources)):
        # network with the sources fixed to this valuation
        r2 = [list(r) for r in regs]
        t2 = list(tabs)
        for s, v in zip(all_sources, vals):
            r2[s], t2[s] = [], [v]
        netv = Net(nj["names"], r2, t2)
        sdv = call(SuccessionDiagram, to_bn(netv, via="api"))
        if call(sdv.expand_bfs) is not True:
            res.violate("inputs:bfs-did-not-complete")
            return
        g = list(net.whole())
        for s, v in zip(all_sources, vals):
            g[s] = v
        start_space = net.perc(tuple(g))
        if start_space not in spaces:
            res.violate("inputs:no-node-for-valuation", valuation=fmt_space(net, tuple(g)), expected_node=fmt_space(net, start_space))
            return
        start = spaces.index(start_space)
        nodes_f, edges_f, ids_f = _dump_below(sd, net, start)
        nodes_v, edges_v, ids_v = _dump_below(sdv, netv, 0)
        if nodes_f != nodes_v:
            res.violate(
                "inputs:node-sets-differ",
                valuation=fmt_space(net, tuple(g)),
                only_free=[fmt_space(net, s) for s in nodes_f - nodes_v][:3],
                only_fixed=[fmt_space(net, s) for s in nodes_v - nodes_f][:3],
            )
            return
        if set(edges_f) != set(edges_v):
            res.violate("inputs:edge-sets-differ", valuation=fmt_space(net, tuple(g)))
            return
        if edges_f != edges_v:
            res.violate("inputs:edge-motifs-differ", valuation=fmt_space(net, tuple(g)))
            return
        hf = _attr_hits(sd, net, sorted(ids_f))
        # attractors of the fixed network, expressed as attractors of the free network (same states)
        att = net.attractors()
        hv = Counter()
        for i in sorted(ids_v):
            for s in call(sdv.node_attractor_seeds, i, compute=True):
                st_ = full_state(netv, s)
                a = net.attractor_of_state(st_) if st_ is not None else None
                hv[att.index(a) if a is not None else "not-an-attractor"] += 1
        if hf != hv:
            res.violate("inputs:attractors-differ", valuation=fmt_space(net, tuple(g)), free=str(dict(hf)), fixed=str(dict(hv)))
            return
        seen_att.append(frozenset(hf))
    res.nontrivial = len(set(seen_att)) >= 2
    res.label("inputs", f"sources={len(all_sources)}", f"n={n}")
    if any(case["free"]):
        res.label("update-less-input")


# ------------------------------------------------------------------ (c) models
def _run_model(case, res):
    from biodivine_aeon import AsynchronousGraph, Attractors, BooleanNetwork

    from biobalm import SuccessionDiagram

    bn = BooleanNetwork.from_file(os.path.join(MODEL_DIR, case["model"])).infer_valid_graph()
    names = [bn.get_variable_name(v) for v in bn.variables()]
    consts = [nm for nm in names if str(bn.get_update_function(nm)) in ("true", "false")]
    for k in case["flip_inputs"]:
        if consts:
            nm = consts[k % len(consts)]
            cur = str(bn.get_update_function(nm))
            bn.set_update_function(nm, "false" if cur == "true" else "true")
    sd = call(SuccessionDiagram, bn, limit=30_000_000)
    call(sd.build, limit=30_000_000)
    seeds = []
    for i in sd.expanded_ids():
        seeds += sd.node_data(i)["attractor_seeds"] or []
    g = AsynchronousGraph(sd.network)
    atts = Attractors.attractors(g)
    used = Counter()
    for s in seeds:
        hit = [k for k, a in enumerate(atts) if not a.intersect(g.mk_subspace(s)).is_empty()]
        if len(hit) != 1:
            res.violate("model:seed-not-in-exactly-one-aeon-attractor", model=case["model"], hits=len(hit), flips=str(case["flip_inputs"]))
            return
        used[hit[0]] += 1
    if set(used) != set(range(len(atts))) or any(v != 1 for v in used.values()):
        res.violate(
            "model:attractors-disagree-with-aeon",
            model=case["model"],
            aeon=len(atts),
            biobalm_seeds=len(seeds),
            multiplicities=sorted(used.values()),
            flips=str(case["flip_inputs"]),
        )
    res.nontrivial = len(atts) >= 2 or any(a.vertices().cardinality() > 1 for a in atts)
    res.label("model", f"model-attractors={min(len(atts), 5)}")


def run_case(case) -> Result:
    res = Result()
    try:
        {"union": _run_union, "inputs": _run_inputs, "model": _run_model}[case["kind"]](case, res)
    except Nonterminating:
        res.excluded = "nonterminating" if case["kind"] != "model" else "model_inconclusive_workbound"
    except BBError as e:
        res.violate(f"exception:{e.kind}@{e.site}:{case['kind']}", error=str(e), tb=e.tb)
    return res
