"""C08 - attractor candidates cover every attractor under every option and limit setting."""

from __future__ import annotations

from hypothesis import strategies as st

from .. import gen, ops, sdcheck
from ..bb import BBError, Nonterminating, bnet_text, call, fmt_space, full_state, net_of
from ..oracle import node_attractors
from ..runner import Result

ID = "C08"
LEVEL = "exploration"
BUDGET = {"quick": {"cases": 9000}, "thorough": {"cases": 150000, "soft_deadline": 1500}}
RULE = (
    "case = (network n<=6 [7], >=40% mined cores; plain pre-history of 0-3 expansion calls; node; greedy_asp_minification x "
    "simulation_minification; configuration with retained_set_optimization_threshold, attractor_candidates_limit, "
    "minimum_simulation_budget, nfvs_size_threshold each from {0,1,2,3,5,10,default}); oracle = either a RuntimeError naming the "
    "candidate limit with nothing cached, or a list of full states inside the node's space such that every brute-force attractor "
    "inside the node and in none of its successors contains >=1 candidate; non-trivial = a non-default configuration field or an "
    "option switched off, on a node with >=2 attractors, a complex attractor or a motif-avoidant attractor"
)
DEF = "default"
VALS = (DEF, DEF, 0, 1, 2, 3, 5, 10)
FIELDS = ("retained_set_optimization_threshold", "attractor_candidates_limit", "minimum_simulation_budget", "nfvs_size_threshold")


@st.composite
def _case(draw, max_n):
    nj = draw(gen.networks(max_n=max_n, core_weight=4, kinds=None))
    n = len(nj["names"])
    cfg = {}
    for f in FIELDS:
        v = draw(st.sampled_from(VALS))
        if v != DEF:
            cfg[f] = v
    return {
        "net": nj,
        "pre": draw(ops.steps(ops.PLAIN_OPS, n, 0, 3)),
        "node": draw(st.integers(0, 11)),
        "greedy": draw(st.booleans()),
        "sim": draw(st.booleans()),
        "config": cfg,
    }


def strategy(tier):
    return _case(6 if tier == "quick" else 7)


def describe(case):
    return f"{bnet_text(case['net'])} | pre: {ops.fmt_steps(case['pre'])} | node {case['node']} greedy={case['greedy']} sim={case['sim']} config={case['config']}"


def simplifications(case):
    """shrink towards the default configuration first (so buckets separate root causes)"""
    for f in list(case["config"]):
        c = dict(case["config"])
        del c[f]
        yield {**case, "config": c}
    if not case["greedy"]:
        yield {**case, "greedy": True}
    if not case["sim"]:
        yield {**case, "sim": True}


def run_case(case) -> Result:
    res = Result()
    net = net_of(case)
    try:
        h = ops.History(net, case["config"])
        for s in case["pre"]:
            out = h.apply(s)
            if out.kind != "ok":
                res.excluded = "limit_error_in_prehistory"
                return res
        sd = h.sd
        i = case["node"] % len(sd)
        if sd.node_data(i)["skipped"]:
            res.excluded = "skip_node"
            return res
        spaces = sdcheck.node_spaces(sd, net)
        sp = spaces[i]
        succ_spaces = [spaces[j] for j in sd.dag.successors(i)]
        exp = node_attractors(net, sp, succ_spaces)
        kind = "expanded" if sd.node_data(i)["expanded"] else "stub"
        cfgtag = ",".join(sorted(case["config"])) or "default"
        opt = ("greedy" if case["greedy"] else "nogreedy") + "/" + ("sim" if case["sim"] else "nosim")
        try:
            cands = call(
                sd.node_attractor_candidates,
                i,
                compute=True,
                greedy_asp_minification=case["greedy"],
                simulation_minification=case["sim"],
                expect=(RuntimeError,),
            )
        except RuntimeError as e:
            if "attractor candidates" not in str(e):
                res.violate(f"unexpected-RuntimeError:{kind}", error=str(e))
                return res
            res.count("resource_limit_errors")
            d = sd.node_data(i)
            if d["attractor_candidates"] is not None or d["attractor_seeds"] is not None:
                res.violate(f"limit-error-but-something-cached:{kind}", config=str(case["config"]))
            res.label("limit-error")
            res.nontrivial = True
            return res
    except Nonterminating:
        res.excluded = "nonterminating"
        return res
    except BBError as e:
        res.violate(f"exception:{e.kind}@{e.site}", error=str(e), tb=e.tb)
        return res
    cst = []
    for c in cands:
        st_ = full_state(net, c)
        if st_ is None or not net.in_space(st_, sp):
            res.violate(f"candidate-not-a-state-of-the-node:{kind}", cand=str(c), space=fmt_space(net, sp))
        else:
            cst.append(st_)
    for a in exp:
        if not any(c in a for c in cst):
            res.violate(
                f"attractor-not-covered:{kind}:{opt}",
                space=fmt_space(net, sp),
                n_candidates=len(cands),
                attractor=sorted(net.state_tuple(s) for s in a)[:3],
                config=str(case["config"]),
                maa=net.is_maa(a),
            )
            break
    interesting = len(exp) >= 2 or any(len(a) >= 2 for a in exp) or any(net.is_maa(a) for a in exp)
    res.nontrivial = interesting and (bool(case["config"]) or not case["greedy"] or not case["sim"])
    res.label(f"n={net.n}", kind, opt, *("cfg:" + f for f in case["config"]))
    if not case["config"]:
        res.label("cfg:default")
    return res
