"""C12 - attractor sets are the complete attractors and the symbolic fallback agrees."""

from __future__ import annotations

from collections import Counter

from hypothesis import strategies as st

from .. import gen, ops, sdcheck
from ..adapter import vertex_set_states
from ..bb import BBError, Nonterminating, bnet_text, call, fmt_space, full_state, net_of
from ..oracle import node_attractors
from ..runner import Result

ID = "C12"
LEVEL = "exploration"
BUDGET = {"quick": {"cases": 6000}, "thorough": {"cases": 100000, "soft_deadline": 1500}}
RULE = (
    "case = (network n<=6 [7] weighted to complex / motif-avoidant / multi-attractor cores; history of 1-6 calls mixing plain "
    "expansions with candidates/seeds/sets queries in generated order on expanded and unexpanded nodes and reclaim_node_data; a "
    "node picked for the fallback; a forcing configuration); oracle = brute-force attractors: after every step every cached "
    "set list equals, in seed order, the full state sets (over all variables) of the attractors containing the seeds; "
    "symbolic_attractor_fallback(sd, i) and node_attractor_seeds(i, symbolic_fallback=True) under a candidate limit that makes "
    "the default method fail return exactly the node's attractors (inside the node, in no successor); non-trivial = a complex "
    "attractor inside a node with >=1 fixed variable"
)
OPS = ops.PLAIN_OPS + ("cands", "seeds", "sets", "sets", "seeds", "reclaim", "allseeds", "succ", "expsets", "expcands", "expseeds", "scc", "block")


@st.composite
def _case(draw, max_n):
    nj = draw(gen.networks(max_n=max_n, core_weight=4, kinds=("maa", "multi", "deep")))
    n = len(nj["names"])
    return {
        "net": nj,
        "steps": draw(ops.steps(OPS, n, 1, 6)),
        "fallback_node": draw(st.integers(0, 11)),
        "force": draw(
            st.fixed_dictionaries(
                {
                    "retained_set_optimization_threshold": st.sampled_from((0, 1, 2)),
                    "attractor_candidates_limit": st.sampled_from((1, 2, 3)),
                }
            )
        ),
    }


def strategy(tier):
    return _case(6 if tier == "quick" else 7)


def describe(case):
    return f"{bnet_text(case['net'])} | {ops.fmt_steps(case['steps'])} | fallback on node {case['fallback_node']} force={case['force']}"


def _as_attractors(net, sd, seeds, sets, res, tag, node):
    """returned (seeds, sets) -> list of attractors; flags ordering / content problems"""
    got = [frozenset(net.state_from_dict(dict(t)) for t in vertex_set_states(sd, vs)) for vs in sets]
    if len(got) != len(seeds):
        res.violate(f"{tag}:sets-seeds-length", node=node, n_sets=len(got), n_seeds=len(seeds))
        return got
    for k, (g, s) in enumerate(zip(got, seeds)):
        st_ = full_state(net, s)
        a = net.attractor_of_state(st_) if st_ is not None else None
        if a is None:
            res.violate(f"{tag}:seed-not-in-attractor", node=node, seed=str(s))
        elif g != a:
            res.violate(f"{tag}:set-is-not-the-attractor-of-its-seed", node=node, index=k, got_size=len(g), expected_size=len(a))
    return got


def run_case(case) -> Result:
    from biobalm._sd_attractors.attractor_symbolic import symbolic_attractor_fallback

    res = Result()
    net = net_of(case)
    nontriv = False
    try:
        h = ops.History(net)
        for k, s in enumerate(case["steps"]):
            out = h.apply(s)
            if out.kind != "ok":
                res.violate(f"unexpected-RuntimeError:{s['op']}", step=k, error=str(out.exc))
                return res
            sd = h.sd
            if s["op"] == "sets":
                i = h.node(s["node"])
                seeds = sd.node_attractor_seeds(i, compute=False)
                _as_attractors(net, sd, seeds, out.ret, res, "sets", i)
            if not sdcheck.check_cache(sd, net, res, f"after:{s['op']}"):
                for v in res.violations:
                    v[1].setdefault("step", k)
                return res
        sd = h.sd
        spaces = sdcheck.node_spaces(sd, net)
        i = case["fallback_node"] % len(sd)
        if not sd.node_data(i)["skipped"]:
            exp = node_attractors(net, spaces[i], [spaces[j] for j in sd.dag.successors(i)])
            fs, fv = call(symbolic_attractor_fallback, sd, i)
            got = _as_attractors(net, sd, fs, fv, res, "fallback", i)
            if Counter(got) != Counter(exp):
                res.violate(
                    "fallback:wrong-attractors",
                    node=i,
                    space=fmt_space(net, spaces[i]),
                    expanded=bool(sd.node_data(i)["expanded"]),
                    got_sizes=sorted(len(g) for g in got),
                    expected_sizes=sorted(len(a) for a in exp),
                )
            if any(len(a) >= 2 for a in exp) and any(v is not None for v in spaces[i]):
                nontriv = True
            # default method must agree as a set of attractors
            ds = call(sd.node_attractor_seeds, i, compute=True)
            dsets = call(sd.node_attractor_sets, i, compute=True)
            dgot = _as_attractors(net, sd, ds, dsets, res, "default", i)
            if Counter(dgot) != Counter(got) and not res.violations:
                res.violate("fallback-differs-from-default", node=i, fallback=sorted(len(g) for g in got), default=sorted(len(g) for g in dgot))
        # forced fallback through the public API
        h2 = ops.History(net, case["force"])
        for s in case["steps"]:
            if s["op"] in ops.PLAIN_OPS or s["op"] == "succ":
                out = h2.apply(s)
                if out.kind != "ok":
                    break
        sd2 = h2.sd
        sp2 = sdcheck.node_spaces(sd2, net)
        j = case["fallback_node"] % len(sd2)
        if not sd2.node_data(j)["skipped"]:
            exp2 = node_attractors(net, sp2[j], [sp2[c] for c in sd2.dag.successors(j)])
            seeds2 = call(sd2.node_attractor_seeds, j, compute=True, symbolic_fallback=True)
            used_fallback = sd2.node_data(j)["attractor_candidates"] is None and len(sd2.node_data(j)["space"]) != net.n
            sets2 = call(sd2.node_attractor_sets, j, compute=True)
            got2 = _as_attractors(net, sd2, seeds2, sets2, res, "forced-fallback", j)
            if Counter(got2) != Counter(exp2):
                res.violate(
                    "forced-fallback:wrong-attractors",
                    node=j,
                    space=fmt_space(net, sp2[j]),
                    used_fallback=used_fallback,
                    got_sizes=sorted(len(g) for g in got2),
                    expected_sizes=sorted(len(a) for a in exp2),
                    force=str(case["force"]),
                )
            if used_fallback:
                res.label("fallback-really-used")
            if any(len(a) >= 2 for a in exp2) and any(v is not None for v in sp2[j]):
                nontriv = True
    except Nonterminating:
        res.excluded = "nonterminating"
        return res
    except RuntimeError as e:
        res.violate("unexpected-RuntimeError:fallback", error=str(e))
        return res
    except BBError as e:
        res.violate(f"exception:{e.kind}@{e.site}", error=str(e), tb=e.tb)
        return res
    res.nontrivial = nontriv
    res.label(f"n={net.n}")
    return res
