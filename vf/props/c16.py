"""C16 - serialization and memory reclamation are transparent."""

from __future__ import annotations

import pickle

from hypothesis import strategies as st

from .. import gen, ops
from ..adapter import canon_space, vertex_set_states
from ..bb import BBError, Nonterminating, bnet_text, call, net_of
from ..runner import Result

ID = "C16"
LEVEL = "exploration"
BUDGET = {"quick": {"cases": 5000}, "thorough": {"cases": 80000, "soft_deadline": 1500}}
RULE = (
    "case = (network n<=8 [10] with generated variable names/order, configuration incl. zero-valued fields, history of 1-7 operations of every kind, per step a generated "
    "choice of pickle round-trip and/or reclaim_node_data on the SUBJECT diagram); oracle = differential: a SHADOW diagram executes "
    "the same calls and is never serialized/reclaimed; after every step node ids, spaces, edges, motif lists, depths, flags, "
    "cached seeds/candidates/sets (read with compute=False) and return values (incl. exception type) must be identical, and at the "
    "end summary(), succession_control and a final build(); the documented exception (candidates answered by seeds after reclaim) "
    "is built in.  non-trivial = a pickle/reclaim executed while some node holds candidates without seeds, a cached percolated "
    "net, or a parent link"
)
OPS = (
    ops.PLAIN_OPS
    + ops.SKIP_OPS
    + ops.ATTR_OPS
    + ops.STRUCT_OPS
    + ("control", "cands", "seeds", "sets", "succ", "bfs")
)
NAME_POOL = ["a", "B", "c1", "x_2", "Zed", "m", "k9", "q", "Ab", "aa", "y", "w0", "a_1", "B_x", "x"]


@st.composite
def _case(draw, max_n):
    nj = draw(gen.networks(max_n=max_n, core_weight=2, kinds=("maa", "deep", "multi")))
    n = len(nj["names"])
    names = draw(st.permutations(NAME_POOL))[:n] if draw(st.booleans()) else nj["names"]
    steps = draw(ops.steps(OPS, n, 1, 7))
    aux = [draw(st.sampled_from(("none", "pickle", "reclaim", "both", "both_rev"))) for _ in steps]
    return {
        "net": {"names": list(names), "regs": nj["regs"], "tables": nj["tables"]},
        "steps": steps,
        "aux": aux,
        "control_sp": draw(ops._target(n)),
        "config": draw(
            st.one_of(
                st.just({}),
                st.just({}),
                st.fixed_dictionaries(
                    {},
                    optional={
                        "nfvs_size_threshold": st.sampled_from((0, 1, 2)),
                        "minimum_simulation_budget": st.sampled_from((0, 1, 10)),
                        "retained_set_optimization_threshold": st.sampled_from((0, 1, 2, 5)),
                        "attractor_candidates_limit": st.sampled_from((2, 3, 5, 20)),
                        "max_motifs_per_node": st.sampled_from((3, 5, 20)),
                    },
                ),
            )
        ),
    }


def strategy(tier):
    return _case(8 if tier == "quick" else 10)


def describe(case):
    return f"{bnet_text(case['net'])} | config={case.get('config')} | " + "; ".join(f"{ops.fmt_step(s)}[{a}]" for s, a in zip(case["steps"], case["aux"]))


def _observe(sd, reclaimed_subject):
    out = []
    for i in sd.node_ids():
        d = sd.node_data(i)
        rec = {
            "id": i,
            "space": canon_space(d["space"]),
            "depth": d["depth"],
            "expanded": bool(d["expanded"]),
            "skipped": bool(d["skipped"]),
            "succ": None,
        }
        if d["expanded"]:
            rec["succ"] = [
                (j, canon_space(sd.edge_stable_motif(i, j)), [canon_space(m) for m in sd.edge_all_stable_motifs(i, j)])
                for j in sorted(sd.node_successors(i))
            ]
        for kind, fn in (("seeds", sd.node_attractor_seeds), ("cands", sd.node_attractor_candidates)):
            try:
                rec[kind] = [canon_space(s) for s in fn(i, compute=False)]
            except KeyError:
                rec[kind] = None
        try:
            rec["sets"] = [vertex_set_states(sd, vs) for vs in sd.node_attractor_sets(i, compute=False)]
        except KeyError:
            rec["sets"] = None
        out.append(rec)
    return out


def _norm_ret(op, ret):
    if ret is None or isinstance(ret, (bool, int)):
        return ret
    if op in ("cands", "seeds"):
        return [canon_space(s) for s in ret]
    if op == "succ":
        return list(ret)
    if op == "expsets":
        return dict(ret)
    if op in ("allseeds", "expseeds", "expcands"):
        return {k: [canon_space(s) for s in v] for k, v in ret.items()}
    if op == "control":
        return [repr(x) for x in ret]
    if op == "sets":
        return len(ret)
    return str(ret)


def _compare(obs_s, obs_h, res, tag, reclaimed):
    if len(obs_s) != len(obs_h):
        res.violate("state-differs:node-count", where=tag, subject=len(obs_s), shadow=len(obs_h))
        return False
    for a, b in zip(obs_s, obs_h):
        for k in ("id", "space", "depth", "expanded", "skipped", "succ", "seeds", "sets"):
            if a[k] != b[k]:
                res.violate(f"state-differs:{k}", where=tag, node=a["id"], subject=str(a[k])[:300], shadow=str(b[k])[:300])
                return False
        if a["cands"] != b["cands"]:
            # documented: after reclaim, a node with known seeds answers the candidates query with its seeds
            if reclaimed and a["seeds"] is not None and a["cands"] == a["seeds"]:
                continue
            res.violate("state-differs:cands", where=tag, node=a["id"], subject=str(a["cands"])[:300], shadow=str(b["cands"])[:300])
            return False
    return True


def run_case(case) -> Result:
    from biobalm.control import succession_control

    res = Result()
    net = net_of(case)
    nontriv = False
    reclaimed = False
    try:
        subj = ops.History(net, case.get("config") or {}, via="api")
        shad = ops.History(net, case.get("config") or {}, via="api")
        for k, (s, aux) in enumerate(zip(case["steps"], case["aux"])):
            outs = []
            for h in (subj, shad):
                try:
                    o = h.apply(s)
                    outs.append((o.kind, _norm_ret(s["op"], o.ret) if o.kind == "ok" else type(o.exc).__name__))
                except BBError as e:
                    outs.append(("bb_error", e.kind))
            if outs[0] != outs[1]:
                if not (s["op"] in ("cands", "expcands") and reclaimed and outs[0][0] == "ok" and outs[1][0] == "ok"):
                    res.violate("return-differs", op=s["op"], step=k, subject=str(outs[0])[:300], shadow=str(outs[1])[:300])
                    return res
            if outs[0][0] == "bb_error":
                res.count("both_raised_" + outs[0][1])
                break
            # serialization / reclamation of the subject only
            if aux != "none":
                sd = subj.sd
                for i in sd.node_ids():
                    d = sd.node_data(i)
                    if (
                        (d["attractor_candidates"] is not None and d["attractor_seeds"] is None)
                        or d["percolated_petri_net"] is not None
                        or d["percolated_network"] is not None
                        or d["parent_node"] is not None
                    ):
                        nontriv = True
                seq = {"pickle": ("p",), "reclaim": ("r",), "both": ("p", "r"), "both_rev": ("r", "p")}[aux]
                for a in seq:
                    if a == "p":
                        subj.sd = call(lambda: pickle.loads(pickle.dumps(subj.sd)))
                    else:
                        call(subj.sd.reclaim_node_data)
                        reclaimed = True
            if not _compare(_observe(subj.sd, reclaimed), _observe(shad.sd, False), res, f"after:{s['op']}[{aux}]", reclaimed):
                for v in res.violations:
                    v[1].setdefault("step", k)
                return res
        else:
            # final queries
            a = call(subj.sd.summary)
            b = call(shad.sd.summary)
            if a != b:
                res.violate("final:summary", subject=a[-300:], shadow=b[-300:])
            tgt = net.sp2d(tuple(case["control_sp"]))
            outs = []
            for h_ in (subj, shad):  # both diagrams get the call, whatever it does on the other one
                try:
                    outs.append(("ok", [repr(x) for x in call(succession_control, h_.sd, tgt)]))
                except BBError as e:
                    outs.append(("error", e.kind))
            if outs[0] != outs[1]:
                res.violate("final:control", subject=str(outs[0])[:300], shadow=str(outs[1])[:300])
            elif outs[0][0] == "error":
                res.count("control_error_" + outs[0][1])
            fa = subj.apply({"op": "build"})
            fb = shad.apply({"op": "build"})
            if fa.kind != fb.kind:
                res.violate("final:build-outcome", subject=fa.kind, shadow=fb.kind)
            elif fa.kind == "ok":
                _compare(_observe(subj.sd, reclaimed), _observe(shad.sd, False), res, "final:build", reclaimed)
                if call(subj.sd.summary) != call(shad.sd.summary):
                    res.violate("final:build-summary")
    except Nonterminating:
        res.excluded = "nonterminating"
        return res
    except BBError as e:
        res.violate(f"exception:{e.kind}@{e.site}", error=str(e), tb=e.tb)
        return res
    res.nontrivial = nontriv
    res.label(f"n={net.n}", *("aux:" + a for a in set(case["aux"])))
    if case["net"]["names"] != sorted(case["net"]["names"]):
        res.label("unsorted-names")
    return res
