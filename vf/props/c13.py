"""C13 - every operation terminates within bounded work."""

from __future__ import annotations

from hypothesis import strategies as st

from .. import gen, ops
from ..bb import BBError, Nonterminating, bnet_text, net_of
from ..guard import MONITOR, work_bound
from ..runner import Result

ID = "C13"
LEVEL = "exploration"
BUDGET = {"quick": {"cases": 10000, "soft_deadline": 200}, "thorough": {"cases": 60000, "soft_deadline": 1500}}
RULE = (
    "case = (network n<=6 [7 thorough], weighted to motif-avoidant cores; configuration; history of <=5 public operations (in 1/6 of the cases preceded by sanitize_network_names on names that collapse) "
    "of all kinds incl. attractor queries on unexpanded/skipped nodes, skipping, pickle/reclaim, control); oracle = loop "
    "back-edges executed inside /repo/biobalm during one call <= B(n,N)=2e7*max(1,4^(n-6))*(1+N/50) + 40*minimum_simulation_budget*(n+1)^2; non-trivial = the history "
    "executed >=2 back-edges inside symbolic_attractor_test, run_simulation_minification or asp_greedy_retained_set_optimization"
)
ASSUMPTIONS = [
    "a bound cannot prove termination; it detects unbounded no-progress loops on the generated inputs",
    "hangs inside native code (clingo/AEON) are caught only by the wall-clock watchdog and reported as inconclusive",
]

WEIRD = ["x{1}", "x[1]", "x_1_", "x}1{", "x.1.", "_x_1_", "a b", "a.b", "a-b", "a_b", "_a_b", "κ", "c[", "c]", "c{", "c_"]

ALL_OPS = (
    ops.PLAIN_OPS
    + ops.SKIP_OPS
    + ops.ATTR_OPS
    + ops.STRUCT_OPS
    + ops.AUX_OPS
    + ("control", "seeds", "seeds", "allseeds", "sets", "build")
)

CONFIGS = st.one_of(
    st.just({}),
    st.just({}),
    st.fixed_dictionaries(
        {},
        optional={
            "retained_set_optimization_threshold": st.sampled_from((0, 1, 2, 3, 5, 10)),
            "attractor_candidates_limit": st.sampled_from((1, 2, 3, 5, 10)),
            "minimum_simulation_budget": st.sampled_from((0, 1, 2, 10, 5000, 20000)),
            "nfvs_size_threshold": st.sampled_from((0, 1, 2, 3)),
            "max_motifs_per_node": st.sampled_from((1, 2, 3, 5, 10)),
        },
    ),
)


@st.composite
def _case(draw, max_n):
    nj = draw(gen.networks(max_n=max_n, core_weight=4, kinds="maa"))
    n = len(nj["names"])
    c = {"net": nj, "config": draw(CONFIGS), "steps": draw(ops.steps(ALL_OPS, n, 1, 5))}
    if draw(st.integers(0, 5)) == 0:
        # construction from a network whose names need sanitizing (several names collapsing to one sanitized name)
        c["raw_names"] = list(draw(st.permutations(WEIRD))[:n])
    return c


def strategy(tier):
    return _case(6 if tier == "quick" else 7)


def describe(case):
    return f"{bnet_text(case['net'])} | config={case['config']} | {ops.fmt_steps(case['steps'])}"


WATCH = ("symbolic_attractor_test", "run_simulation_minification", "asp_greedy_retained_set_optimization")


_TRIPS = [0]  # work-bound violations seen by this worker process


def reset():
    _TRIPS[0] = 0


def run_case(case) -> Result:
    res = Result()
    if _TRIPS[0] >= 6:
        # every trip costs seconds (the bound is generous); once a worker has collected several violations the
        # rest of its budget is skipped (and counted) so that the run ends in bounded time
        res.excluded = "skipped_after_6_workbound_violations_in_this_worker"
        return res
    net = net_of(case)
    n = net.n
    MONITOR.profile = True
    MONITOR.per_code = {}
    try:
        try:
            budget = case["config"].get("minimum_simulation_budget", 1000)
            if case.get("raw_names"):
                from biobalm.petri_net_translation import sanitize_network_names

                from ..adapter import to_bn_builder
                from ..bb import call
                from ..oracle import Net

                raw = to_bn_builder(Net(case["raw_names"], net.regs, net.tables))
                try:
                    call(sanitize_network_names, raw, limit=work_bound(n, 1))
                except Nonterminating as e:
                    res.violate(f"workbound:sanitize_network_names@{e.where}", names=case["raw_names"])
                    _TRIPS[0] += 1
                    return res
                res.label("sanitized-construction")
            h = ops.History(net, case["config"], limit=work_bound(n, 1, budget))
        except Nonterminating as e:
            res.violate(f"workbound:construct@{e.where}")
            return res
        except BBError as e:
            res.excluded = "construct_error"
            return res
        mx = 0
        for k, s in enumerate(case["steps"]):
            h.limit = work_bound(n, max(len(h.sd), 8), budget)
            try:
                out = h.apply(s)
                if out.kind == "runtime_error":
                    res.count("runtime_errors")
            except Nonterminating as e:
                res.violate(f"workbound:{s['op']}@{e.where}", step=k, op=ops.fmt_step(s), bound=h.limit)
                _TRIPS[0] += 1
                break
            except BBError as e:
                # other exceptions are judged by the properties they belong to
                res.count("other_exceptions")
                break
            mx = max(mx, MONITOR.count)
        res.count("max_backedges_bucket_1e%d" % len(str(max(mx, 1))))
        if mx > 5_000_000:
            res.count("calls_above_5e6_backedges")
            res.label("heavy>5e6")
        pc = MONITOR.per_code
        res.nontrivial = any(pc.get(w, 0) >= 2 for w in WATCH)
        for w in WATCH:
            if pc.get(w, 0) >= 2:
                res.label("loop:" + w)
        res.label(f"n={n}")
    finally:
        MONITOR.profile = False
    return res
