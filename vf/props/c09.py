"""C09 - the trap-space solver returns exactly the requested trap spaces."""

from __future__ import annotations

import itertools

from hypothesis import strategies as st

from .. import gen
from ..adapter import to_bn
from ..bb import BBError, Nonterminating, call, fmt_space, net_of, sd_space, bnet_text
from ..oracle import Net
from ..runner import Result

ID = "C09"
LEVEL = "exploration"
BUDGET = {"quick": {"cases": 16000}, "thorough": {"cases": 300000, "soft_deadline": 1500}}
RULE = (
    "case = (network n<=6 [8 thorough] from the family mixture, solver kind trappist|reduced-STG|trappist on a net restricted to a percolated trap space, problem, "
    "time direction, ensure space, avoid spaces, source-variable list, solution limit, input form BooleanNetwork|Petri net); "
    "oracle = brute-force family over all 3^n subspaces; non-trivial = unconstrained answer has >=2 members and the "
    "constraints (ensure/avoid/source list/retained set) change the answer; distinct by canonical JSON of the case"
)
EXHAUSTIVE_NOTE = "all 4 one-variable and 256 two-variable networks (thorough: plus a fixed slice of 1023 three-variable networks) x every ensure space x {min,max,fix} x both time directions"
ASSUMPTIONS = ["'max' is only asked with >=1 free variable in the ensure space and non-empty avoid spaces (as the property states)"]


NASTY_NAMES = ["b1_x", "xb0_", "ab1_c", "b0_b1_", "tr_a_up_1", "b1", "B0_", "_", "x_b1_y", "k0"]


@st.composite
def _case(draw, max_n):
    nj = draw(gen.networks(max_n=max_n, core_weight=1))
    n = len(nj["names"])
    kind = draw(st.sampled_from(("trappist", "trappist", "rstg", "rpn")))
    if draw(st.integers(0, 3)) == 0:
        # names that contain the Petri-net place prefixes, underscores, digits first, mixed case
        nj = {**nj, "names": list(draw(st.permutations(NASTY_NAMES))[:n])}
    case = {"net": nj, "kind": kind}
    has_free = any(t is None for t in nj["tables"])
    case["form"] = draw(st.sampled_from(("api", "pn") if has_free else ("bnet", "api", "pn")))
    case["limit"] = draw(st.sampled_from((None, None, None, 0, 1, 2, 5)))
    if kind == "rpn":
        # trappist on the Petri net RESTRICTED to a percolated trap space (the form used by the succession diagram)
        case["trap_pick"] = draw(st.integers(0, 1000))
        case["problem"] = draw(st.sampled_from(("min", "max", "fix")))
        case["ensure_sp"] = draw(st.one_of(st.just([None] * n), gen.spaces_of(n, p_fixed=0.3)))
        case["avoid_sps"] = []
        case["optsrc_vars"] = draw(st.sampled_from((None, [])))
        case["form"] = "pn"
        return case
    if kind == "trappist":
        problem = draw(st.sampled_from(("min", "max", "fix")))
        case["problem"] = problem
        case["reverse"] = draw(st.booleans())
        ens = draw(st.one_of(st.just([None] * n), gen.spaces_of(n, p_fixed=0.3)))
        if problem == "max" and all(v is not None for v in ens):
            ens[draw(st.integers(0, n - 1))] = None
        case["ensure_sp"] = ens
        k = draw(st.integers(0, 2))
        av = []
        for _ in range(k):
            a = draw(gen.spaces_of(n, p_fixed=0.3))
            if all(v is None for v in a):
                a[draw(st.integers(0, n - 1))] = draw(st.integers(0, 1))
            av.append(a)
        case["avoid_sps"] = av
        case["optsrc_vars"] = draw(
            st.one_of(st.none(), st.lists(st.integers(0, n - 1), unique=True, max_size=2).map(sorted))
        )
    else:
        case["retained_sp"] = draw(gen.spaces_of(n, p_fixed=0.5))
        case["ensure_sp"] = draw(st.one_of(st.just([None] * n), gen.spaces_of(n, p_fixed=0.3)))
        k = draw(st.integers(0, 2))
        case["avoid_sps"] = [draw(gen.spaces_of(n, p_fixed=0.3)) for _ in range(k)]
    return case


def strategy(tier):
    return _case(6 if tier == "quick" else 8)


def three_var_slice(step):
    """a fixed arithmetic slice of the 2^24 three-variable networks in which every variable reads all three"""
    out = []
    for code in range(0, 1 << 24, step):
        tabs = [[(code >> (8 * v + (7 - k))) & 1 for k in range(8)] for v in range(3)]
        out.append({"names": ["v0", "v1", "v2"], "regs": [[0, 1, 2]] * 3, "tables": tabs})
    return out


def exhaustive(tier):
    nets = []
    for t in range(4):
        nets.append({"names": ["v0"], "regs": [[0]], "tables": [[(t >> 1) & 1, t & 1]]})
    for t0 in range(16):
        for t1 in range(16):
            nets.append(
                {
                    "names": ["v0", "v1"],
                    "regs": [[0, 1], [0, 1]],
                    "tables": [[(t0 >> (3 - k)) & 1 for k in range(4)], [(t1 >> (3 - k)) & 1 for k in range(4)]],
                }
            )
    if tier == "thorough":
        nets += three_var_slice(16411)
    out = []
    for nj in nets:
        n = len(nj["names"])
        for ens in itertools.product((None, 0, 1), repeat=n):
            for problem in ("min", "max", "fix"):
                if problem == "max" and all(v is not None for v in ens):
                    continue
                for rev in (False, True):
                    out.append(
                        {
                            "net": nj,
                            "kind": "trappist",
                            "form": "bnet",
                            "limit": None,
                            "problem": problem,
                            "reverse": rev,
                            "ensure_sp": list(ens),
                            "avoid_sps": [],
                            "optsrc_vars": None,
                        }
                    )
    return out


def describe(case):
    net = net_of(case)
    s = f"{bnet_text(case['net'])} | {case['kind']}"
    if case["kind"] == "rpn":
        s += f" {case['problem']} trap_pick={case['trap_pick']} optsrc={case.get('optsrc_vars')}"
        return s + f" ensure={fmt_space(net, case['ensure_sp'])} limit={case['limit']}"
    if case["kind"] == "trappist":
        s += f" {case['problem']} reverse={case['reverse']} optsrc={case.get('optsrc_vars')}"
    else:
        s += f" retained={fmt_space(net, case['retained_sp'])}"
    s += f" ensure={fmt_space(net, case['ensure_sp'])} avoid={[fmt_space(net, a) for a in case['avoid_sps']]} limit={case['limit']} form={case['form']}"
    return s


def run_case(case) -> Result:
    from biobalm.petri_net_translation import network_to_petrinet
    from biobalm.trappist_core import compute_fixed_point_reduced_STG, trappist

    res = Result()
    net = net_of(case)
    n = net.n
    form = case["form"]
    bn = to_bn(net, via="bnet" if form == "bnet" else "api")
    ensure = tuple(case["ensure_sp"])
    avoid = [tuple(a) for a in case["avoid_sps"]]
    limit = case["limit"]
    kind = case["kind"]
    res.label(f"kind={kind}", f"form={form}", f"n={n}")
    try:
        if kind == "rpn":
            from biobalm.petri_net_translation import restrict_petrinet_to_subspace

            traps = net.trap_spaces()
            T = net.perc(traps[case["trap_pick"] % len(traps)])
            sub, free = net.restrict(T)
            if sub.n == 0:
                res.excluded = "rpn_fixed_point"
                return res
            problem = case["problem"]
            ens_sub = tuple(ensure[i] for i in free)
            if problem == "max" and all(v is not None for v in ens_sub):
                ens_sub = tuple(None if k == 0 else v for k, v in enumerate(ens_sub))
            opt = case["optsrc_vars"]
            pn = call(network_to_petrinet, bn)
            rpn = call(restrict_petrinet_to_subspace, pn, net.sp2d(T))
            got = call(
                trappist,
                rpn,
                problem=problem,
                solution_limit=limit,
                ensure_subspace=sub.sp2d(ens_sub),
                optimize_source_variables=None if opt is None else [],
            )
            expected = sub.trappist(problem, ensure=ens_sub, opt_sources=None if opt is None else [])
            uncon = sub.trappist(problem)
            tag = f"rpn:{problem}"
            res.label(f"rpn/{problem}")
            net = sub  # results are spaces of the sub-network
        elif kind == "trappist":
            problem = case["problem"]
            rev = case["reverse"]
            opt = case["optsrc_vars"]
            res.label(f"{problem}/{'rev' if rev else 'fwd'}")
            network = bn if form != "pn" else call(network_to_petrinet, bn)
            got = call(
                trappist,
                network,
                problem=problem,
                reverse_time=rev,
                solution_limit=limit,
                ensure_subspace=net.sp2d(ensure),
                avoid_subspaces=[net.sp2d(a) for a in avoid],
                optimize_source_variables=None if opt is None else [net.names[i] for i in opt],
            )
            expected = net.trappist(problem, reverse=rev, ensure=ensure, avoid=avoid, opt_sources=opt)
            uncon = net.trappist(problem, reverse=rev)
            tag = f"trappist:{problem}:{'rev' if rev else 'fwd'}"
        else:
            retained = tuple(case["retained_sp"])
            pn = call(network_to_petrinet, bn)
            got = call(
                compute_fixed_point_reduced_STG,
                pn,
                net.sp2d(retained),
                ensure_subspace=net.sp2d(ensure),
                avoid_subspaces=[net.sp2d(a) for a in avoid],
                solution_limit=limit,
            )
            exp_states = net.reduced_stg_fixed_points(retained, ensure=ensure, avoid=avoid)
            expected = [net.state_tuple(s) for s in exp_states]
            uncon = [net.state_tuple(s) for s in net.reduced_stg_fixed_points(net.whole())]
            tag = "rstg"
    except Nonterminating as e:
        res.excluded = "nonterminating"
        return res
    except BBError as e:
        res.violate(f"exception:{e.kind}@{e.site}", error=str(e), tb=e.tb)
        return res

    try:
        got_sp = [sd_space(net, d) for d in got]
    except KeyError as e:
        res.violate(f"{tag}:unknown-variable", got=str(got))
        return res
    exp_set = set(expected)
    got_set = set(got_sp)
    if len(got_sp) != len(got_set):
        res.violate(f"{tag}:duplicate", got=[fmt_space(net, g) for g in got_sp])
    spurious = got_set - exp_set
    if spurious:
        res.violate(
            f"{tag}:spurious",
            spurious=[fmt_space(net, g) for g in sorted(spurious, key=str)],
            expected=[fmt_space(net, g) for g in expected],
        )
    if limit is None:
        missing = exp_set - got_set
        if missing:
            res.violate(
                f"{tag}:missing",
                missing=[fmt_space(net, g) for g in sorted(missing, key=str)],
                got=[fmt_space(net, g) for g in got_sp],
            )
    else:
        want = min(max(limit, 1), len(exp_set))
        if len(got_set) != want:
            res.violate(f"{tag}:limit-size", limit=limit, got=len(got_set), total=len(exp_set))
    res.nontrivial = len(uncon) >= 2 and set(uncon) != exp_set and len(exp_set) >= 1
    if len(exp_set) >= 2:
        res.label("answer>=2")
    if limit is not None and limit < len(exp_set):
        res.label("limit-truncates")
    return res
