"""C06 - every intervention reported successful really forces the network into the target."""

from __future__ import annotations

from hypothesis import strategies as st

from .. import gen, ops
from ..bb import BBError, Nonterminating, bnet_text, call, fmt_space, net_of, sd_space
from ..oracle import RefSD
from ..runner import Result
from .c07 import pick_target

ID = "C06"
LEVEL = "exploration"
BUDGET = {"quick": {"cases": 12000}, "thorough": {"cases": 160000, "soft_deadline": 1500}}
RULE = (
    "case = (network n<=5 [6] weighted to motif-rich families; non-empty target: minimal trap space | reference node | attractor "
    "state | random partial assignment; strategy internal|all; max_drivers in {None,0,1,2,3}; forbidden drivers; "
    "skip_feedforward_successions; pre-history of 0-3 calls of any strategy: partial bfs/dfs, block with source shortcuts, scc, "
    "minimal-space + skip nodes, skip_remaining); oracle, for every returned (successful) intervention: nested chain of trap spaces "
    "from the whole space (brute-force trap test), LDOI of each override (with the previous trap space) contains the step's motif, "
    "in the network with the override's variables forced every attractor reachable from ANY state of the previous trap space has "
    "the motif's values (explicit reachability + Tarjan on the overridden network), final trap space consistent with the target and "
    "every brute-force minimal trap space inside it inside the target; non-trivial = a succession of length >=2 or a step with >=2 "
    "alternative overrides"
)
PRE = ops.PLAIN_OPS + ("block", "scc", "minskip", "skiprem", "skip", "bfs", "dfs")


@st.composite
def _case(draw, max_n):
    nj = draw(
        st.one_of(
            gen.motif_rich(min_n=2, max_n=max_n),
            gen.motif_rich(min_n=2, max_n=max_n),
            gen.networks(max_n=max_n, core_weight=1, kinds=("deep", "diamond", "edge2", "maa")),
            gen.with_inputs(gen.motif_rich(max_n=max_n)),
            gen.switched(max_n),
        )
    )
    n = len(nj["names"])
    return {
        "net": nj,
        "tmode": draw(st.sampled_from(("min", "node", "attr", "random", "random"))),
        "tpick": draw(st.integers(0, 1000)),
        "target_sp": draw(ops._target(n)),
        "strategy": draw(st.sampled_from(("internal", "all"))),
        "maxd": draw(st.sampled_from((None, None, 0, 1, 2, 3))),
        "forbidden_vars": sorted(draw(st.sets(st.integers(0, n - 1), max_size=2))),
        "skip_ff": draw(st.booleans()),
        "pre": draw(ops.steps(PRE, n, 0, 3)),
    }


def strategy(tier):
    return _case(5 if tier == "quick" else 6)


def _target(net, ref, case):
    if case["tmode"] == "attr":
        att = net.attractors()
        a = sorted(att, key=lambda x: sorted(x))[case["tpick"] % len(att)]
        return net.state_tuple(sorted(a)[0])
    return pick_target(net, ref, case)


def describe(case):
    net = net_of(case)
    ref = RefSD(net)
    return (
        f"{bnet_text(case['net'])} | pre: {ops.fmt_steps(case['pre'])} | target={fmt_space(net, _target(net, ref, case))} "
        f"strategy={case['strategy']} max_drivers={case['maxd']} forbidden={[net.names[i] for i in case['forbidden_vars']]} "
        f"skip_feedforward={case['skip_ff']}"
    )


def run_case(case) -> Result:
    from biobalm.control import succession_control

    res = Result()
    net = net_of(case)
    ref = RefSD(net)
    target = _target(net, ref, case)
    forb = {net.names[i] for i in case["forbidden_vars"]}
    try:
        h = ops.History(net)
        for s in case["pre"]:
            out = h.apply(s)
            if out.kind != "ok":
                res.violate(f"unexpected-RuntimeError:{s['op']}", error=str(out.exc))
                return res
        got = call(
            succession_control,
            h.sd,
            net.sp2d(target),
            strategy=case["strategy"],
            max_drivers_per_succession_node=case["maxd"],
            forbidden_drivers=set(forb),
            skip_feedforward_successions=case["skip_ff"],
        )
    except Nonterminating:
        res.excluded = "nonterminating"
        return res
    except BBError as e:
        res.violate(f"exception:{e.kind}@{e.site}", error=str(e), tb=e.tb)
        return res
    mts = net.min_traps()
    nontriv = False
    checks = 0
    for iv in got:
        if not iv.successful:
            res.violate("unsuccessful-intervention-returned-with-successful_only", iv=repr(iv)[:200])
            continue
        T = net.perc(net.whole())
        F = net.whole()
        if len(iv.succession) >= 2 or any(len(c) >= 2 for c in iv.control):
            nontriv = True
        for k, (m, ctrl) in enumerate(zip(iv.succession, iv.control)):
            msp = sd_space(net, m)
            if net.inter(T, msp) is None:
                res.violate("succession:motif-inconsistent-with-previous-trap-space", step=k, motif=fmt_space(net, msp), previous=fmt_space(net, T))
                break
            for d in ctrl:
                dd = {net.names.index(kk): int(v) for kk, v in d.items()}
                # (b) LDOI
                # LDOI of the override together with the values fixed by the EARLIER STEPS (F); network constants are
                # not part of F before the first step, so an override may legitimately override a constant
                g = list(F)
                for i, v in dd.items():
                    if g[i] is None:
                        g[i] = v
                L = net.perc(tuple(g))
                if not all(msp[i] is None or L[i] == msp[i] for i in range(net.n)):
                    res.violate("override:ldoi-does-not-contain-motif", step=k, override=str(d), motif=fmt_space(net, msp), ldoi=fmt_space(net, L))
                # (c) dynamics of the overridden network from every state of the previous trap space
                N2 = net.override(dd)
                R = N2.reach(list(net.states_of(T)))
                for a in N2.attractors():
                    if a & R:
                        checks += 1
                        if not all(net.in_space(s, msp) for s in a):
                            res.violate(
                                f"override:does-not-force-motif:{case['strategy']}",
                                step=k,
                                override=str(d),
                                motif=fmt_space(net, msp),
                                previous=fmt_space(net, T),
                                escaping_attractor=sorted(net.state_tuple(s) for s in a)[:3],
                            )
                            break
            T2 = net.perc(net.inter(T, msp))
            if not net.is_trap(T2):
                res.violate("succession:not-a-trap-space", step=k, space=fmt_space(net, T2))
                break
            if not (net.sub(T2, T)):
                res.violate("succession:not-nested", step=k)
                break
            T = T2
            fm = list(F)
            for i in range(net.n):
                if msp[i] is not None and fm[i] is None:
                    fm[i] = msp[i]
            F = net.perc(tuple(fm))
        else:
            if net.inter(T, target) is None:
                res.violate("final:inconsistent-with-target", final=fmt_space(net, T), target=fmt_space(net, target))
            for mt in mts:
                if net.sub(mt, T) and not net.sub(mt, target):
                    res.violate(
                        "final:minimal-trap-space-outside-target",
                        final=fmt_space(net, T),
                        target=fmt_space(net, target),
                        minimal=fmt_space(net, mt),
                        succession=[fmt_space(net, sd_space(net, m)) for m in iv.succession],
                    )
                    break
    res.count("attractor_checks", checks)
    res.nontrivial = nontriv
    res.label(f"n={net.n}", f"strategy={case['strategy']}", f"tmode={case['tmode']}", "pre" if case["pre"] else "fresh")
    if got:
        res.label("has-interventions")
    return res
