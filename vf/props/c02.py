"""C02 - a fully expanded diagram is exactly the hierarchy of percolated trap spaces."""

from __future__ import annotations

from hypothesis import strategies as st

from .. import gen, ops, sdcheck
from ..bb import BBError, Nonterminating, bnet_text, net_of
from ..oracle import RefSD
from ..runner import Result

ID = "C02"
LEVEL = "exploration"
BUDGET = {"quick": {"cases": 9000}, "thorough": {"cases": 150000, "soft_deadline": 1500}}
RULE = (
    "case = (network n<=6 [7] incl. sources, free inputs, constants, redundant formulas; expand_bfs|expand_dfs on a fresh diagram); "
    "oracle = reference succession diagram from brute-force trap-space enumeration (root, node set, successors, per-edge motif "
    "multisets, percolation-closedness, minimal trap spaces); non-trivial = >=4 nodes, or an edge with >=2 motifs, or a node "
    "with >=2 parents, or a source variable"
)
EXHAUSTIVE_NOTE = "all 4 one-variable and 256 two-variable networks (thorough: plus a fixed slice of 4094 three-variable networks) x {bfs,dfs}"


@st.composite
def _case(draw, max_n):
    nj = draw(gen.networks(max_n=max_n, core_weight=2, kinds=None))
    return {"net": nj, "strategy": draw(st.sampled_from(("bfs", "dfs")))}


def strategy(tier):
    return _case(6 if tier == "quick" else 7)


def exhaustive(tier):
    from .c09 import exhaustive as e9

    nets, seen = [], set()
    for c in e9(tier):
        k = str(c["net"])
        if k not in seen:
            seen.add(k)
            nets.append(c["net"])
    if tier == "thorough":
        from .c09 import three_var_slice

        nets += three_var_slice(4099)
    return [{"net": nj, "strategy": s} for nj in nets for s in ("bfs", "dfs")]


def describe(case):
    return f"{bnet_text(case['net'])} | {case['strategy']}"


def run_case(case) -> Result:
    res = Result()
    net = net_of(case)
    ref = RefSD(net)
    try:
        h = ops.History(net)
        out = h.apply({"op": case["strategy"], "node": None, "level": None, "stack": None, "size": None})
    except Nonterminating:
        res.excluded = "nonterminating"
        return res
    except BBError as e:
        res.violate(f"exception:{e.kind}@{e.site}", error=str(e), tb=e.tb)
        return res
    if out.kind != "ok":
        res.violate(f"unexpected-RuntimeError:{case['strategy']}", error=str(out.exc))
        return res
    if out.ret is not True:
        res.violate(f"{case['strategy']}:did-not-report-completion", ret=str(out.ret))
    sd = h.sd
    sdcheck.check_full(sd, net, ref, res, "full")
    sdcheck.check_minimal(sd, net, res, "min")
    nodes = ref.nodes()
    parents = {}
    for x, c in ref.children.items():
        for y in c:
            parents[y] = parents.get(y, 0) + 1
    res.nontrivial = (
        len(nodes) >= 4 or any(len(m) >= 2 for m in ref.motifs.values()) or any(v >= 2 for v in parents.values()) or bool(ref.src)
    )
    res.label(f"n={net.n}", f"nodes={min(len(nodes), 20) // 5 * 5}+")
    if any(len(m) >= 2 for m in ref.motifs.values()):
        res.label("edge>=2motifs")
    if any(v >= 2 for v in parents.values()):
        res.label("multi-parent")
    if ref.src:
        res.label("sources")
    if any(t is None for t in net.tables):
        res.label("free-input")
    return res
