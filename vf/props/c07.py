"""C07 - control output is complete, minimal and honours the user's constraints."""

from __future__ import annotations

from collections import Counter

from hypothesis import strategies as st

from .. import gen, ops
from ..adapter import to_bn
from ..bb import BBError, Nonterminating, bnet_text, call, fmt_space, net_of, sd_space
from ..control_oracle import ref_drivers, ref_successions
from ..oracle import RefSD
from ..runner import Result

ID = "C07"
LEVEL = "exploration"
BUDGET = {"quick": {"cases": 10000}, "thorough": {"cases": 150000, "soft_deadline": 1500}}
RULE = (
    "case = (network n<=5 [6] weighted to motif-rich families; non-empty target: a minimal trap space, a reference-diagram node, or "
    "a random partial assignment; strategy internal|all; max_drivers_per_succession_node in {None,0,1,2,3}; forbidden_drivers; "
    "successful_only) on a FRESH diagram; oracle = reference model: (1) successions_to_target and the successions of "
    "succession_control(successful_only=False) equal, as multisets, the motif chains along all root->end-node paths of the "
    "target-directed expansion of the brute-force reference diagram; (2) per step the reported override sets equal the "
    "inclusion-minimal variable sets (within pool and size bound) whose brute-force LDOI forces the motif; never a forbidden "
    "variable or an oversized set; (3) successful <=> every step non-empty and successful_only=True returns exactly that subset; "
    "non-trivial = >=2 successions, or a minimal driver set of size >=2, or a constraint that removes a driver"
)


@st.composite
def _case(draw, max_n):
    nj = draw(
        st.one_of(
            gen.motif_rich(min_n=2, max_n=max_n),
            gen.motif_rich(min_n=2, max_n=max_n),
            gen.networks(max_n=max_n, core_weight=1, kinds=("deep", "diamond", "edge2")),
            gen.with_inputs(gen.motif_rich(max_n=max_n)),
            gen.switched(max_n),
        )
    )
    n = len(nj["names"])
    return {
        "net": nj,
        "tmode": draw(st.sampled_from(("min", "node", "random", "random"))),
        "tpick": draw(st.integers(0, 1000)),
        "target_sp": draw(ops._target(n)),
        "strategy": draw(st.sampled_from(("internal", "all"))),
        "maxd": draw(st.sampled_from((None, None, 0, 1, 2, 3))),
        "forbidden_vars": sorted(draw(st.sets(st.integers(0, n - 1), max_size=2))),
        "successful_only": draw(st.booleans()),
    }


def strategy(tier):
    return _case(5 if tier == "quick" else 6)


def pick_target(net, ref, case):
    if case["tmode"] == "min":
        mts = net.min_traps()
        t = mts[case["tpick"] % len(mts)]
    elif case["tmode"] == "node":
        nodes = ref.nodes()
        t = sorted(nodes, key=str)[case["tpick"] % len(nodes)]
    else:
        t = tuple(case["target_sp"])
    if all(v is None for v in t):
        t = tuple(case["target_sp"])
    return t


def describe(case):
    net = net_of(case)
    ref = RefSD(net)
    return (
        f"{bnet_text(case['net'])} | target={fmt_space(net, pick_target(net, ref, case))} strategy={case['strategy']} "
        f"max_drivers={case['maxd']} forbidden={[net.names[i] for i in case['forbidden_vars']]} successful_only={case['successful_only']}"
    )


def run_case(case) -> Result:
    from biobalm import SuccessionDiagram
    from biobalm.control import succession_control, successions_to_target

    res = Result()
    net = net_of(case)
    ref = RefSD(net)
    target = pick_target(net, ref, case)
    forb = {net.names[i] for i in case["forbidden_vars"]}
    strat = case["strategy"]
    K = case["maxd"]
    try:
        via = "api" if any(t is None for t in net.tables) else "bnet"
        sd1 = call(SuccessionDiagram, to_bn(net, via=via))
        got_succ = call(successions_to_target, sd1, net.sp2d(target))
        sd2 = call(SuccessionDiagram, to_bn(net, via=via))
        got_all = call(
            succession_control,
            sd2,
            net.sp2d(target),
            strategy=strat,
            max_drivers_per_succession_node=K,
            forbidden_drivers=set(forb),
            successful_only=False,
        )
        got_only = None
        if case["successful_only"]:
            sd3 = call(SuccessionDiagram, to_bn(net, via=via))
            got_only = call(
                succession_control,
                sd3,
                net.sp2d(target),
                strategy=strat,
                max_drivers_per_succession_node=K,
                forbidden_drivers=set(forb),
                successful_only=True,
            )
    except Nonterminating:
        res.excluded = "nonterminating"
        return res
    except BBError as e:
        res.violate(f"exception:{e.kind}@{e.site}", error=str(e), tb=e.tb)
        return res
    exp_succ, info = ref_successions(net, ref, target)
    fm = lambda s: tuple(fmt_space(net, m) for m in s)  # noqa
    e_ms = Counter(fm(s) for s in exp_succ)
    g_ms = Counter(fm([sd_space(net, m) for m in s]) for s in got_succ)
    if g_ms != e_ms:
        res.violate(
            "successions_to_target:wrong",
            target=fmt_space(net, target),
            missing=[list(k) for k in (e_ms - g_ms)][:4],
            spurious=[list(k) for k in (g_ms - e_ms)][:4],
        )
    a_ms = Counter(fm([sd_space(net, m) for m in iv.succession]) for iv in got_all)
    if a_ms != e_ms:
        res.violate(
            "succession_control:successions-wrong",
            target=fmt_space(net, target),
            missing=[list(k) for k in (e_ms - a_ms)][:4],
            spurious=[list(k) for k in (a_ms - e_ms)][:4],
        )
    removed_by_constraint = False
    big_driver = False
    for iv in got_all:
        succession = [sd_space(net, m) for m in iv.succession]
        exp_dr = ref_drivers(net, succession, strat, K, forb)
        if K is not None or forb:
            free_dr = ref_drivers(net, succession, strat, None, set())
            if free_dr != exp_dr:
                removed_by_constraint = True
        got_dr = []
        for step in iv.control:
            got_dr.append(sorted(tuple(sorted((net.names.index(k), int(v)) for k, v in d.items())) for d in step))
        for k_, (g, e) in enumerate(zip(got_dr, exp_dr)):
            for d in g:
                if any(net.names[i] in forb for i, _ in d):
                    res.violate("drivers:forbidden-variable-reported", step=k_, driver=str(d))
                inner_n = sum(1 for i in range(net.n) if succession[k_][i] is not None)
                if K is not None and len(d) > K:
                    res.violate("drivers:oversized-set-reported", step=k_, driver=str(d), bound=K)
                if any(len(d) >= 2 for d in e):
                    big_driver = True
            if g != e:
                res.violate(
                    f"drivers:wrong:{strat}",
                    step=k_,
                    succession=list(fm(succession)),
                    missing=[str(x) for x in e if x not in g][:4],
                    spurious=[str(x) for x in g if x not in e][:4],
                    strategy=strat,
                    K=K,
                    forbidden=sorted(forb),
                )
                break
        if len(got_dr) != len(exp_dr):
            res.violate("drivers:step-count", got=len(got_dr), expected=len(exp_dr))
        want_success = all(len(step) > 0 for step in iv.control)
        if bool(iv.successful) != want_success:
            res.violate("successful-flag-wrong", flag=bool(iv.successful), control=str(iv.control)[:200])
    if got_only is not None:
        want = Counter(repr(iv) for iv in got_all if all(len(step) > 0 for step in iv.control))
        have = Counter(repr(iv) for iv in got_only)
        if want != have:
            res.violate("successful_only:not-the-successful-subset", got=len(got_only), expected=sum(want.values()))
    res.nontrivial = len(exp_succ) >= 2 or big_driver or removed_by_constraint
    res.label(f"n={net.n}", f"strategy={strat}", f"tmode={case['tmode']}", f"successions={min(len(exp_succ), 5)}")
    if removed_by_constraint:
        res.label("constraint-removes-driver")
    if big_driver:
        res.label("driver-size>=2")
    if any(len(s) >= 2 for s in exp_succ):
        res.label("succession-length>=2")
    return res
