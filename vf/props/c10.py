"""C10 - Petri-net encoding and network reduction preserve the asynchronous dynamics."""

from __future__ import annotations

import os

from hypothesis import strategies as st

from .. import gen
from ..adapter import bn_to_net, to_bn
from ..bb import REPO, BBError, Nonterminating, bnet_text, call, fmt_space, net_of
from ..oracle import Net
from ..runner import Result

ID = "C10"
LEVEL = "exploration"
BUDGET = {"quick": {"cases": 9000}, "thorough": {"cases": 120000, "soft_deadline": 1500}}
RULE = (
    "case A (explicit) = (network n<=6 [8] incl. free inputs/constants, subspace S, oracle trap space T, remove_constants flag, "
    "diagram-node order): every state x variable: an up/down transition is enabled <=> f_x(s) != s_x in that direction; "
    "restricted nets and percolated networks agree with f on every state of the (percolated) subspace and have exactly its free "
    "variables; node_percolated_network/_petri_net with and without cached parent net.  case B (symbolic) = (repository model, "
    "partial assignment): OR of transition cubes == f&!x / !f&x as BDDs, also after restriction to the percolated assignment. "
    "non-trivial = some function has >=2 implicants in one direction, or S fixes a regulator of a free variable"
)
ASSUMPTIONS = [
    "symbolic domain B trusts AEON's BDD operations mk_conjunctive_clause / l_or / equality, which the translation itself does not use",
    "quick tier samples the 116 repository models with <=40 variables; thorough uses all 210",
]

MODEL_DIR = os.path.join(REPO, "models", "bbm-bnet-inputs-true")


def _models(tier):
    names = sorted(f for f in os.listdir(MODEL_DIR) if f.endswith(".bnet"))
    return names


_SIZES = {}


def _model_size(name):
    if name not in _SIZES:
        with open(os.path.join(MODEL_DIR, name)) as f:
            _SIZES[name] = sum(1 for line in f if "," in line and not line.startswith("targets"))
    return _SIZES[name]


@st.composite
def _case(draw, tier):
    max_n = 6 if tier == "quick" else 8
    if draw(st.integers(0, 9)) == 0:
        names = _models(tier)
        if tier == "quick":
            names = [m for m in names if _model_size(m) <= 40]
        return {
            "kind": "model",
            "model": draw(st.sampled_from(names)),
            "assign": draw(st.lists(st.tuples(st.integers(0, 400), st.integers(0, 1)), max_size=6)),
            "flip_inputs": draw(st.lists(st.integers(0, 400), max_size=4)),
        }
    nj = draw(gen.networks(max_n=max_n, core_weight=1))
    n = len(nj["names"])
    return {
        "kind": "explicit",
        "net": nj,
        "sub_sp": draw(gen.spaces_of(n, p_fixed=0.3)),
        "trap_pick": draw(st.integers(0, 1000)),
        "remove_constants": draw(st.booleans()),
        "size_limit": draw(st.sampled_from((1, 2, 3, 5, None))),
        "order": draw(st.sampled_from(("id", "rev", "rot"))),
    }


def strategy(tier):
    return _case(tier)


def exhaustive(tier):
    if tier != "thorough":
        return []
    return [{"kind": "model", "model": m, "assign": [], "flip_inputs": []} for m in _models(tier)]


def describe(case):
    if case["kind"] == "model":
        return f"model {case['model']} assign={case['assign']} flip_inputs={case['flip_inputs']}"
    net = net_of(case)
    return f"{bnet_text(case['net'])} | S={fmt_space(net, case['sub_sp'])} trap_pick={case['trap_pick']} remove_constants={case['remove_constants']} size_limit={case['size_limit']} order={case['order']}"


# ------------------------------------------------------------------ explicit PN semantics
def _pn_index(pn, names):
    """-> {var: {'up': [preplaces...], 'down': [...]}} plus structural violations"""
    trans = {nm: {"up": [], "down": []} for nm in names}
    problems = []
    places = set()
    for node, data in pn.nodes(data=True):
        if data.get("kind") == "place":
            places.add(node)
    for node, data in pn.nodes(data=True):
        if data.get("kind") != "transition":
            continue
        var = data["change"]
        direction = data["direction"]
        pre = set(pn.predecessors(node))
        post = set(pn.successors(node))
        old = f"b0_{var}" if direction == "up" else f"b1_{var}"
        new = f"b1_{var}" if direction == "up" else f"b0_{var}"
        if var not in trans:
            problems.append(f"transition {node} changes unknown/removed variable {var}")
            continue
        if old not in pre or new not in post or new in pre or old in post:
            problems.append(f"transition {node} does not move {var} {direction}")
        for p in (pre | post) - {old, new}:
            if not (p in pre and p in post):
                problems.append(f"transition {node} changes another variable via place {p}")
            if p not in places:
                problems.append(f"transition {node} uses missing place {p}")
        trans[var][direction].append(sorted(pre))
    return trans, places, problems


def _enabled(pre, sdict):
    for p in pre:
        v = sdict.get(p[3:])
        if v is None:
            return False
        if v != (1 if p.startswith("b1_") else 0):
            return False
    return True


def _check_pn(net: Net, pn, space, res, tag, want_vars=None):
    """restricted/unrestricted net vs f on every state of ``space`` (tuple).  ``want_vars``: exact set of variable
    names that must have places (None = all variables)."""
    names = net.names
    free = [i for i in range(net.n) if space[i] is None]
    exp_vars = set(names[i] for i in free) if want_vars is None else set(want_vars)
    trans, places, problems = _pn_index(pn, [names[i] for i in range(net.n)])
    got_vars = {p[3:] for p in places}
    if got_vars != exp_vars or any((f"b0_{v}" in places) != (f"b1_{v}" in places) for v in got_vars):
        res.violate(f"{tag}:places", got=sorted(got_vars), expected=sorted(exp_vars))
        return False
    if problems:
        res.violate(f"{tag}:structure", problems=problems[:3])
        return False
    for v in names:
        if v not in exp_vars and (trans[v]["up"] or trans[v]["down"]):
            res.violate(f"{tag}:transition-of-fixed-variable", var=v)
            return False
    for s in net.states_of(space):
        sd_ = {names[i]: (s >> i) & 1 for i in free}
        for i in free:
            v = names[i]
            cur = (s >> i) & 1
            up = any(_enabled(pre, sd_) for pre in trans[v]["up"])
            down = any(_enabled(pre, sd_) for pre in trans[v]["down"])
            fx = net.F[i][s]
            eup = fx == 1 and cur == 0
            edown = fx == 0 and cur == 1
            if up != eup or down != edown:
                res.violate(
                    f"{tag}:enabledness",
                    var=v,
                    state=net.state_tuple(s),
                    got_up=up,
                    got_down=down,
                    f=fx,
                    space=fmt_space(net, space),
                )
                return False
    return True


def _check_bn(net: Net, new_bn, pspace, res, tag, removed):
    """percolated network vs f on every state of the percolated space ``pspace``"""
    names = net.names
    free = [i for i in range(net.n) if pspace[i] is None]
    vnames = [new_bn.get_variable_name(v) for v in new_bn.variables()]
    exp = set(names[i] for i in free) if removed else set(names)
    if set(vnames) != exp:
        res.violate(f"{tag}:variables", got=sorted(vnames), expected=sorted(exp))
        return False
    try:
        pnet = bn_to_net(new_bn, names=vnames)
    except Exception as e:  # noqa
        res.violate(f"{tag}:cannot-evaluate", error=str(e))
        return False
    pos = {nm: k for k, nm in enumerate(vnames)}
    for s in net.states_of(pspace):
        # project the state to the percolated network's variables
        ps = 0
        for nm, k in pos.items():
            if (s >> names.index(nm)) & 1:
                ps |= 1 << k
        for nm, k in pos.items():
            i = names.index(nm)
            if pnet.tables[k] is None:
                # free input kept free: must be free in the original too and not fixed
                if net.tables[i] is not None or pspace[i] is not None:
                    res.violate(f"{tag}:lost-update-function", var=nm)
                    return False
                continue
            got = pnet.F[k][ps]
            want = net.F[i][s] if pspace[i] is None else pspace[i]
            if got != want:
                res.violate(f"{tag}:function", var=nm, state=net.state_tuple(s), got=got, expected=want, space=fmt_space(net, pspace))
                return False
    return True


def _run_explicit(case, res):
    from biobalm import SuccessionDiagram
    from biobalm.petri_net_translation import network_to_petrinet, restrict_petrinet_to_subspace
    from biobalm.space_utils import percolate_network

    net = net_of(case)
    bn = to_bn(net, via="api")
    pn = call(network_to_petrinet, bn)
    whole = net.whole()
    _check_pn(net, pn, whole, res, "pn")
    # restriction to an arbitrary subspace
    S = tuple(case["sub_sp"])
    rpn = call(restrict_petrinet_to_subspace, pn, net.sp2d(S))
    _check_pn(net, rpn, S, res, "restrict")
    # percolation to a trap space
    traps = net.trap_spaces()
    T = traps[case["trap_pick"] % len(traps)]
    pT = net.perc(T)
    rc = case["remove_constants"]
    nb = call(percolate_network, bn, net.sp2d(T), None, rc)
    _check_bn(net, nb, pT, res, f"percolate_network[rc={rc}]", rc)
    if rc:
        pn2 = call(network_to_petrinet, nb)
        _check_pn(net, pn2, pT, res, "pn-of-percolated")
    rpn2 = call(restrict_petrinet_to_subspace, pn, net.sp2d(pT))
    _check_pn(net, rpn2, pT, res, "restrict-to-percolated")
    # diagram nodes
    sd = call(SuccessionDiagram, to_bn(net, via="api"))
    call(sd.expand_bfs, None, None, case["size_limit"])
    ids = list(sd.node_ids())
    if case["order"] == "rev":
        ids.reverse()
    elif case["order"] == "rot":
        ids = ids[len(ids) // 2 :] + ids[: len(ids) // 2]
    from ..bb import sd_space

    for i in ids:
        sp = sd_space(net, sd.node_data(i)["space"])
        cached_parent = sd.node_data(i)["parent_node"] is not None and sd.node_data(sd.node_data(i)["parent_node"])["percolated_petri_net"] is not None
        npn = call(sd.node_percolated_petri_net, i, compute=True)
        if len(sd.node_data(i)["space"]) != net.n:
            _check_pn(net, npn, sp, res, f"node-pn[{'cached-parent' if cached_parent else 'global'}]")
            nbn = call(sd.node_percolated_network, i, compute=True)
            _check_bn(net, nbn, sp, res, "node-bn", True)
        if cached_parent:
            res.label("cached-parent-route")
    # non-triviality
    multi_impl = False
    trans, _, _ = _pn_index(pn, net.names)
    for v in net.names:
        if len(trans[v]["up"]) >= 2 or len(trans[v]["down"]) >= 2:
            multi_impl = True
    fixes_reg = any(
        S[r] is not None for i in range(net.n) if S[i] is None and net.tables[i] is not None for r in net.regs[i]
    )
    res.nontrivial = multi_impl or fixes_reg
    res.label("explicit", f"n={net.n}")
    if multi_impl:
        res.label(">=2implicants")
    if any(t is None for t in net.tables):
        res.label("free-input")


# ------------------------------------------------------------------ symbolic domain B
def _run_model(case, res):
    from biodivine_aeon import AsynchronousGraph, BooleanNetwork, SymbolicContext

    from biobalm.petri_net_translation import network_to_petrinet, restrict_petrinet_to_subspace
    from biobalm.space_utils import percolate_space

    path = os.path.join(MODEL_DIR, case["model"])
    bn = BooleanNetwork.from_file(path).infer_valid_graph()
    names = [bn.get_variable_name(v) for v in bn.variables()]
    n = len(names)
    # generated valuation of the constant inputs (the shipped models fix them to true)
    consts = [nm for nm in names if str(bn.get_update_function(nm)) in ("true", "false")]
    for k in case["flip_inputs"]:
        if consts:
            nm = consts[k % len(consts)]
            cur = str(bn.get_update_function(nm))
            bn.set_update_function(nm, "false" if cur == "true" else "true")
    ctx = SymbolicContext(bn)
    bvs = ctx.bdd_variable_set()
    pn = call(network_to_petrinet, bn, limit=None)
    trans = {nm: {"up": [], "down": []} for nm in names}
    for node, data in pn.nodes(data=True):
        if data.get("kind") == "transition":
            trans[data["change"]][data["direction"]].append(sorted(pn.predecessors(node)))

    def cube(pre):
        return bvs.mk_conjunctive_clause({p[3:]: p.startswith("b1_") for p in pre})

    multi = False
    for nm in names:
        uf = bn.get_update_function(nm)
        if uf is None:
            if trans[nm]["up"] or trans[nm]["down"]:
                res.violate("model:free-input-has-transitions", model=case["model"], var=nm)
            continue
        f = ctx.mk_update_function(uf)
        x = bvs.mk_literal(nm, True)
        for direction, want in (("up", f.l_and(x.l_not())), ("down", f.l_not().l_and(x))):
            got = bvs.mk_false()
            for pre in trans[nm][direction]:
                got = got.l_or(cube(pre))
            if len(trans[nm][direction]) >= 2:
                multi = True
            if got != want:
                res.violate(f"model:implicants-{direction}", model=case["model"], var=nm)
                return
    # restriction to the percolation of a generated partial assignment
    assign = {}
    for k, b in case["assign"]:
        assign[names[k % n]] = b
    if assign:
        graph = AsynchronousGraph(bn)
        pa = call(percolate_space, graph, dict(assign), limit=None)
        rpn = call(restrict_petrinet_to_subspace, pn, pa, limit=None)
        rtrans = {nm: {"up": [], "down": []} for nm in names}
        for node, data in rpn.nodes(data=True):
            if data.get("kind") == "transition":
                rtrans[data["change"]][data["direction"]].append(sorted(rpn.predecessors(node)))
        places = {p[3:] for p, d in rpn.nodes(data=True) if d.get("kind") == "place"}
        if places != set(names) - set(pa):
            res.violate("model:restrict-places", model=case["model"], extra=sorted(places - (set(names) - set(pa)))[:5])
            return
        valuation = {k: bool(v) for k, v in pa.items()}
        for nm in names:
            if nm in pa:
                if rtrans[nm]["up"] or rtrans[nm]["down"]:
                    res.violate("model:restrict-transition-of-fixed", model=case["model"], var=nm)
                    return
                continue
            uf = bn.get_update_function(nm)
            if uf is None:
                continue
            f = ctx.mk_update_function(uf).r_restrict(valuation)
            x = bvs.mk_literal(nm, True)
            for direction, want in (("up", f.l_and(x.l_not())), ("down", f.l_not().l_and(x))):
                got = bvs.mk_false()
                for pre in rtrans[nm][direction]:
                    got = got.l_or(cube(pre))
                if got != want:
                    res.violate(f"model:restricted-implicants-{direction}", model=case["model"], var=nm, assign=str(assign))
                    return
        res.label("model-restricted")
    # restriction to trap spaces obtained from the solver (verified symbolically to be trap spaces first)
    if n <= 60:
        from biobalm.trappist_core import trappist

        for T in call(trappist, pn, problem="min", solution_limit=2, limit=None) + call(trappist, pn, problem="max", solution_limit=2, limit=None):
            val = {k: bool(v) for k, v in T.items()}
            is_trap = True
            for nm, v in T.items():
                uf = bn.get_update_function(nm)
                if uf is None:
                    continue
                fr = ctx.mk_update_function(uf).r_restrict(val)
                if not (fr.is_true() if v else fr.is_false()):
                    is_trap = False
            if not is_trap:
                res.violate("model:solver-result-is-not-a-trap-space", model=case["model"], space=str(dict(sorted(T.items())))[:200])
                return
            rpn = call(restrict_petrinet_to_subspace, pn, T, limit=None)
            rtr = {nm: {"up": [], "down": []} for nm in names}
            for node, data in rpn.nodes(data=True):
                if data.get("kind") == "transition":
                    rtr[data["change"]][data["direction"]].append(sorted(rpn.predecessors(node)))
            for nm in names:
                if nm in T:
                    if rtr[nm]["up"] or rtr[nm]["down"]:
                        res.violate("model:trap-restrict-transition-of-fixed", model=case["model"], var=nm)
                        return
                    continue
                uf = bn.get_update_function(nm)
                if uf is None:
                    continue
                f = ctx.mk_update_function(uf).r_restrict(val)
                x = bvs.mk_literal(nm, True)
                for direction, want in (("up", f.l_and(x.l_not())), ("down", f.l_not().l_and(x))):
                    got = bvs.mk_false()
                    for pre in rtr[nm][direction]:
                        got = got.l_or(cube(pre))
                    if got != want:
                        res.violate(f"model:trap-restricted-implicants-{direction}", model=case["model"], var=nm)
                        return
            res.count("model_trap_spaces_checked")
    res.nontrivial = multi
    res.label("model", f"model-vars={min(n // 20 * 20, 200)}+")


def run_case(case) -> Result:
    res = Result()
    try:
        if case["kind"] == "explicit":
            _run_explicit(case, res)
        else:
            _run_model(case, res)
    except Nonterminating:
        res.excluded = "nonterminating"
    except BBError as e:
        res.violate(f"exception:{e.kind}@{e.site}", error=str(e), tb=e.tb)
    return res
