"""C05 - diagrams completed with skip nodes never lose an attractor."""

from __future__ import annotations

from hypothesis import strategies as st

from .. import gen, ops, sdcheck
from ..bb import BBError, Nonterminating, bnet_text, fmt_space, full_state, net_of
from ..runner import Result

ID = "C05"
LEVEL = "exploration"
BUDGET = {"quick": {"cases": 6000}, "thorough": {"cases": 100000, "soft_deadline": 1500}}
RULE = (
    "case = (network n<=6 [7], >=50% motif-avoidant cores composed with bistable components; 0-4 expansion calls of any strategy "
    "with size limits; then a generated mix of skip_to_minimal on stubs, expand_minimal_spaces(skip_ignored=True[, size]) and "
    "skip_remaining; then node_attractor_seeds(compute=True) for all node ids in a generated order, in a third of the cases with symbolic_fallback=True under a configuration that makes the candidate search fail); oracle = brute-force "
    "attractors: every attractor contains >=1 reported seed, every seed lies in an attractor inside its node's space, and if the "
    "network has no motif-avoidant attractor and no stub remains every attractor is hit exactly once; non-trivial = >=2 skip nodes "
    "with intersecting spaces, or a motif-avoidant attractor inside a skip node"
)
PRE = ops.PLAIN_OPS + ("block", "scc", "bfs", "dfs")
SKIPS = ("skip", "skip", "minskip", "skiprem")


@st.composite
def _case(draw, max_n):
    nj = draw(gen.networks(max_n=max_n, core_weight=6, kinds=("maa",)))
    n = len(nj["names"])
    return {
        "net": nj,
        "pre": draw(ops.steps(PRE, n, 0, 4)),
        "steps": draw(ops.steps(SKIPS, n, 1, 4)),
        "order": draw(st.sampled_from(("id", "rev", "rot"))),
        # how the seeds are asked for: default, or with the symbolic fallback under a configuration that makes the
        # candidate search fail
        "fallback": draw(st.sampled_from((False, False, True))),
        "force": draw(st.sampled_from(({}, {"retained_set_optimization_threshold": 1, "attractor_candidates_limit": 1}, {"retained_set_optimization_threshold": 2, "attractor_candidates_limit": 2}))),
    }


def strategy(tier):
    return _case(6 if tier == "quick" else 7)


def describe(case):
    return f"{bnet_text(case['net'])} | pre: {ops.fmt_steps(case['pre'])} | skips: {ops.fmt_steps(case['steps'])} | seeds order={case['order']} fallback={case.get('fallback')} force={case.get('force')}"


def _trig_f5(case, detail):
    """F5: a motif-avoidant attractor lying in >=2 skip nodes, each of which excludes it through the intersection
    with another attractor-free non-ancestor node (mutual / cyclic exclusion)"""
    return (
        detail.get("maa") is True
        and detail.get("n_skip_nodes_containing", 0) >= 2
        and detail.get("every_containing_skip_node_pruned_by_intersection_rule") is True
    )


TRIGGERS = {"maa_in_mutually_pruned_skip_nodes": _trig_f5}


def run_case(case) -> Result:
    res = Result()
    net = net_of(case)
    att = net.attractors()
    has_maa = any(net.is_maa(a) for a in att)
    try:
        force = case.get("force") or {}
        h = ops.History(net)
        for s in case["pre"]:
            out = h.apply(s)
            if out.kind != "ok":
                res.violate(f"unexpected-RuntimeError:{s['op']}", error=str(out.exc))
                return res
        for s in case["steps"]:
            if s["op"] == "skip":
                stubs = list(h.sd.stub_ids())
                if not stubs:
                    continue
                s = dict(s, node=stubs[s["node"] % len(stubs)])
            out = h.apply(s)
            if out.kind != "ok":
                res.violate(f"unexpected-RuntimeError:{s['op']}", error=str(out.exc))
                return res
        # which nodes already carry an empty attractor result before any query (clean marks set by block/scc)
        pre_empty = {
            i: (h.sd.node_data(i)["attractor_candidates"] == [] or h.sd.node_data(i)["attractor_seeds"] == [])
            for i in h.sd.node_ids()
        }
        if case.get("fallback"):
            from ..bb import call

            for k_, v_ in force.items():
                h.sd.config[k_] = v_
            ids = list(h.sd.node_ids())
            if case["order"] == "rev":
                ids.reverse()
            elif case["order"] == "rot" and ids:
                ids = ids[len(ids) // 2 :] + ids[: len(ids) // 2]
            seeds = {i: call(h.sd.node_attractor_seeds, i, compute=True, symbolic_fallback=True) for i in ids}
            res.label("symbolic-fallback")
        else:
            out = h.apply({"op": "allseeds", "order": case["order"]})
            if out.kind != "ok":
                res.violate("unexpected-RuntimeError:seeds", error=str(out.exc))
                return res
            seeds = out.ret
    except Nonterminating:
        res.excluded = "nonterminating"
        return res
    except BBError as e:
        res.violate(f"exception:{e.kind}@{e.site}", error=str(e), tb=e.tb)
        return res
    sd = h.sd
    spaces = sdcheck.node_spaces(sd, net)
    hits = {a: 0 for a in att}
    for i, ss in seeds.items():
        for s in ss:
            st_ = full_state(net, s)
            a = net.attractor_of_state(st_) if st_ is not None else None
            if a is None or not net.attr_in_space(a, spaces[i]):
                res.violate(
                    "seed-not-in-attractor-of-its-node",
                    node=i,
                    seed=str(s),
                    space=fmt_space(net, spaces[i]),
                    skipped=bool(sd.node_data(i)["skipped"]),
                )
                continue
            hits[a] += 1
    skip_ids = [i for i in sd.node_ids() if sd.node_data(i)["skipped"]]
    stubs_remain = any(True for _ in sd.stub_ids())
    for a, k in hits.items():
        if k == 0:
            containing = [i for i in skip_ids if net.attr_in_space(a, spaces[i])]

            qpos = {i: k for k, i in enumerate(seeds.keys())}  # query order

            def empty_when_queried(n, x):
                """did node n already have an EMPTY result when skip node x was queried?"""
                if pre_empty.get(n):
                    return True
                return n in qpos and qpos[n] < qpos[x] and seeds[n] == []

            # is every skip node that contains the attractor pruned, by the documented rule, through its
            # intersection with a non-ancestor node whose own result was (really) empty at that moment?
            by_rule = bool(containing) and all(
                any(
                    n != x
                    and not net.sub(spaces[x], spaces[n])
                    and empty_when_queried(n, x)
                    and net.inter(spaces[x], spaces[n]) is not None
                    and net.attr_in_space(a, net.inter(spaces[x], spaces[n]))
                    for n in sd.node_ids()
                )
                for x in containing
            )
            res.violate(
                "attractor-lost",
                attractor=sorted(net.state_tuple(s) for s in a)[:3],
                maa=net.is_maa(a),
                n_skip_nodes=len(skip_ids),
                skip_nodes_containing=[fmt_space(net, spaces[i]) for i in containing][:4],
                n_skip_nodes_containing=len(containing),
                every_containing_skip_node_pruned_by_intersection_rule=by_rule,
            )
        elif k > 1 and not has_maa and not stubs_remain:
            res.violate("attractor-reported-more-than-once-without-maa", times=k, attractor=sorted(net.state_tuple(s) for s in a)[:3])
    # structural part of the mechanism: a skip node is connected to (exactly) trap spaces inside itself and
    # reaches every minimal trap space it contains
    import networkx as nx

    mts = net.min_traps()
    for x in skip_ids:
        for j in sd.dag.successors(x):
            if not net.sub(spaces[j], spaces[x]):
                res.violate("skip-node-successor-outside-node", node=x, space=fmt_space(net, spaces[x]), successor=fmt_space(net, spaces[j]))
        desc = {spaces[j] for j in nx.descendants(sd.dag, x)}
        for t in mts:
            if net.sub(t, spaces[x]) and t not in desc:
                res.violate("skip-node-misses-minimal-trap", node=x, space=fmt_space(net, spaces[x]), minimal=fmt_space(net, t))
    inter = any(net.inter(spaces[i], spaces[j]) is not None for x, i in enumerate(skip_ids) for j in skip_ids[x + 1 :])
    maa_in_skip = any(net.is_maa(a) and any(net.attr_in_space(a, spaces[i]) for i in skip_ids) for a in att)
    res.nontrivial = inter or maa_in_skip
    res.label(f"n={net.n}", f"skipnodes={min(len(skip_ids), 5)}")
    if inter:
        res.label("intersecting-skip-nodes")
    if maa_in_skip:
        res.label("maa-in-skip-node")
    if has_maa:
        res.label("maa")
    return res
