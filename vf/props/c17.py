"""C17 - results do not depend on how the network is written down."""

from __future__ import annotations

import re
from collections import Counter

from hypothesis import strategies as st

from .. import gen, sdcheck
from ..adapter import bn_to_net, to_bn, to_bn_builder
from ..bb import BBError, Nonterminating, bnet_text, call, full_state, net_of
from ..oracle import Net
from ..runner import Result

ID = "C17"
LEVEL = "exploration"
BUDGET = {"quick": {"cases": 3500}, "thorough": {"cases": 60000, "soft_deadline": 1500}}
RULE = (
    "case = (network n<=6 [7], transformation chain: bijective renaming to generated identifiers (changes AEON's variable order), "
    "permutation of declaration order, re-writing every update function as DNF/CNF/Shannon expansion, negating a subset of "
    "variables (x' = !x everywhere), round trip through bnet/aeon/sbml text, names that need sanitizing incl. collisions; "
    "strategy); oracle = metamorphic: with phi the induced map on spaces, expand_bfs() of both presentations gives phi-equal node "
    "sets, edge sets and per-edge motif multisets (and is_subgraph/is_isomorphic say so when only the declaration order differs), phi-equal minimal trap spaces for the "
    "chosen strategy, and after build() the seeds of both hit the same brute-force attractors once each; sanitize_network_names "
    "gives distinct [A-Za-z0-9_]+ names, leaves its input unchanged and preserves every update function positionally; "
    "non-trivial = the transformation changes the variable order or negates a variable, on a diagram with >=3 nodes"
)
POOL = ["a", "B", "c1", "x_2", "Zed", "m", "k9", "q", "Ab", "aa", "y", "w0", "_u", "V_9", "a_1", "B_x", "x"]
# (AEON itself rejects names containing one of ! & | ^ = < > ( ) ? : when a network is validated)
WEIRD = ["x{1}", "x[1]", "x_1_", "a b", "a.b", "a-b", "a/b", "a$b", "a'b", "TGFβ", "NFκB", "a_b", "x__1_", "κ", "9a", "a{", "_a_b", "a,b", "a#b", "a+b", "__a_b", "x}1{", "x.1.", "a b ", "a.b."]


@st.composite
def _case(draw, max_n):
    nj = draw(gen.networks(max_n=max_n, core_weight=2, kinds=("deep", "maa", "edge2", "multi")))
    n = len(nj["names"])
    # no update-less inputs: bnet/sbml round trips cannot express an isolated one
    tabs = [t if t is not None else [0, 1] for t in nj["tables"]]
    regs = [r if t is not None else [i] for i, (r, t) in enumerate(zip(nj["regs"], nj["tables"]))]
    mode = draw(st.sampled_from(("rename", "rename", "format", "sanitize", "reorder")))
    pool = WEIRD if mode == "sanitize" else POOL
    return {
        "net": {"names": nj["names"], "regs": regs, "tables": tabs},
        "mode": mode,
        # mode "reorder": same names, only the declaration order differs (is_isomorphic must then say True)
        "new_names": list(draw(st.permutations(pool))[:n]) if mode != "reorder" else list(nj["names"]),
        "decl_perm": list(draw(st.permutations(list(range(n))))),
        "negate_vars": sorted(draw(st.sets(st.integers(0, n - 1), max_size=2))) if mode not in ("sanitize", "reorder") else [],
        "style": draw(st.sampled_from(("dnf", "cnf", "shannon"))),
        "format": draw(st.sampled_from(("bnet", "aeon", "sbml"))),
        "strategy": draw(st.sampled_from(("block", "scc", "min", "attr", "dfs"))),
    }


def strategy(tier):
    return _case(6 if tier == "quick" else 7)


def describe(case):
    return (
        f"{bnet_text(case['net'])} | mode={case['mode']} names={case['new_names']} decl_perm={case['decl_perm']} "
        f"negate={case['negate_vars']} style={case['style']} format={case['format']} strategy={case['strategy']}"
    )


def transform(netj, new_names, decl_perm, negate):
    """-> (Net', rename: old index -> new index)"""
    n = len(netj["names"])
    neg = set(negate)
    regs, tabs = [], []
    for i in range(n):
        r = netj["regs"][i]
        t = netj["tables"][i]
        k = len(r)
        nt = []
        for idx in range(1 << k):
            src = 0
            for p, rr in enumerate(r):
                bit = (idx >> (k - 1 - p)) & 1
                if rr in neg:
                    bit ^= 1
                src = (src << 1) | bit
            v = t[src]
            if i in neg:
                v ^= 1
            nt.append(v)
        regs.append(list(r))
        tabs.append(nt)
    # permute declaration order
    pos = {old: new for new, old in enumerate(decl_perm)}
    names2 = [new_names[old] for old in decl_perm]
    regs2, tabs2 = [], []
    for new, old in enumerate(decl_perm):
        r_old = regs[old]
        r_new = sorted(pos[x] for x in r_old)
        k = len(r_new)
        nt = []
        for idx in range(1 << k):
            bits = {rn: (idx >> (k - 1 - p)) & 1 for p, rn in enumerate(r_new)}
            oi = 0
            for x in r_old:
                oi = (oi << 1) | bits[pos[x]]
            nt.append(tabs[old][oi])
        regs2.append(r_new)
        tabs2.append(nt)
    return Net(names2, regs2, tabs2), pos


def _dump(sd, to_base):
    """node-space set, edge set, motif multisets in BASE coordinates"""
    spaces = [to_base(sd.node_data(i)["space"]) for i in sd.node_ids()]
    nodes = Counter(spaces)
    edges = {}
    for a, b in sd.dag.edges:
        edges[(spaces[a], spaces[b])] = Counter(to_base(m) for m in sd.edge_all_stable_motifs(a, b))
    return nodes, edges


def _strategy(sd, name):
    if name == "block":
        return call(sd.expand_block)
    if name == "scc":
        return call(sd.expand_scc)
    if name == "min":
        return call(sd.expand_minimal_spaces)
    if name == "attr":
        return call(sd.expand_attractor_seeds)
    return call(sd.expand_dfs)


def run_case(case) -> Result:
    from biobalm import SuccessionDiagram
    from biobalm.petri_net_translation import sanitize_network_names

    res = Result()
    base = net_of(case)
    n = base.n
    negate = case["negate_vars"]
    tnet, pos = transform(case["net"], case["new_names"], case["decl_perm"], negate)
    inv = {new: old for old, new in pos.items()}
    try:
        # ---------------- transformed presentation
        if case["mode"] == "sanitize":
            raw = to_bn_builder(tnet)
            raw_names = raw.variable_names()
            raw_aeon = raw.to_aeon()
            try:
                bn2 = call(sanitize_network_names, raw)
            except Nonterminating as e:
                res.violate("sanitize:does-not-terminate", names=raw_names, where=e.where)
                return res
            if raw.variable_names() != raw_names or raw.to_aeon() != raw_aeon:
                res.violate("sanitize:input-network-modified")
            names2 = bn2.variable_names()
            if any(not re.match(r"^[A-Za-z0-9_]+$", x) for x in names2):
                res.violate("sanitize:unsafe-name", names=names2)
                return res
            if len(set(names2)) != len(names2) or len(names2) != n:
                res.violate("sanitize:names-not-distinct", names=names2)
                return res
            a = bn_to_net(raw, names=raw_names)
            b = bn_to_net(bn2, names=names2)
            if a.regs != b.regs or a.tables != b.tables:
                res.violate("sanitize:update-function-changed", before=raw_names, after=names2)
                return res
            tnames = names2  # positional renaming
        else:
            bn_api = to_bn(tnet, via="api", style=case["style"])
            tnames = list(tnet.names)
            if case["mode"] == "format":
                fmt = case["format"]
                text = {"bnet": bn_api.to_bnet, "aeon": bn_api.to_aeon, "sbml": bn_api.to_sbml}[fmt]()
                sd2 = call(SuccessionDiagram.from_rules, text, fmt)
                bn2 = None
            else:
                bn2 = bn_api
        if case["mode"] != "format":
            sd2 = call(SuccessionDiagram, bn2)
        sd1 = call(SuccessionDiagram, to_bn(base, via="bnet"))
        name_to_old = {tnames[new]: inv[new] for new in range(n)}

        def to_base(d):
            sp = [None] * n
            for k, v in d.items():
                old = name_to_old[k]
                sp[old] = int(v) ^ (1 if old in negate else 0)
            return tuple(sp)

        def ident(d):
            sp = [None] * n
            for k, v in d.items():
                sp[base.names.index(k)] = int(v)
            return tuple(sp)

        r1 = call(sd1.expand_bfs)
        r2 = call(sd2.expand_bfs)
        if r1 is not True or r2 is not True:
            res.violate("bfs-did-not-complete", base=str(r1), transformed=str(r2))
        n1, e1 = _dump(sd1, ident)
        n2, e2 = _dump(sd2, to_base)
        if n1 != n2:
            res.violate(
                f"diagram:node-sets-differ:{case['mode']}",
                only_base=[str(x) for x in (n1 - n2)][:3],
                only_transformed=[str(x) for x in (n2 - n1)][:3],
            )
        elif set(e1) != set(e2):
            res.violate(f"diagram:edge-sets-differ:{case['mode']}")
        elif e1 != e2:
            res.violate(f"diagram:edge-motifs-differ:{case['mode']}")
        if case["mode"] == "reorder":
            # the library's own comparison has to agree when the names agree
            for x, y, w in ((sd1, sd2, "base<=reordered"), (sd2, sd1, "reordered<=base")):
                if call(x.is_subgraph, y) is not True:
                    res.violate("is_subgraph-false-for-reordered-declaration", which=w)
            if call(sd1.is_isomorphic, sd2) is not True:
                res.violate("is_isomorphic-false-for-reordered-declaration")
        # second pair: a strategy + build on fresh diagrams
        sa = call(SuccessionDiagram, to_bn(base, via="bnet"))
        if case["mode"] == "format":
            sb = call(SuccessionDiagram.from_rules, text, case["format"])
        else:
            sb = call(SuccessionDiagram, bn2)
        ra = _strategy(sa, case["strategy"])
        rb = _strategy(sb, case["strategy"])
        if ra != rb:
            res.violate(f"strategy-return-differs:{case['strategy']}", base=str(ra), transformed=str(rb))
        ma = Counter(ident(sa.node_data(i)["space"]) for i in sa.minimal_trap_spaces())
        mb = Counter(to_base(sb.node_data(i)["space"]) for i in sb.minimal_trap_spaces())
        if ma != mb:
            res.violate(
                f"minimal-trap-spaces-differ:{case['strategy']}:{case['mode']}",
                only_base=[str(x) for x in (ma - mb)][:3],
                only_transformed=[str(x) for x in (mb - ma)][:3],
            )
        # build() on fresh diagrams (a diagram left by expand_scc has nodes with partial successor lists, see C01's known finding)
        sa = call(SuccessionDiagram, to_bn(base, via="bnet"))
        if case["mode"] == "format":
            sb = call(SuccessionDiagram.from_rules, text, case["format"])
        else:
            sb = call(SuccessionDiagram, bn2)
        call(sa.build)
        call(sb.build)
        att = base.attractors()

        def hit(sd, conv):
            c = Counter()
            for i in sd.expanded_ids():
                for s in sd.node_data(i)["attractor_seeds"] or []:
                    sp = conv(s)
                    if None in sp:
                        c["partial-state"] += 1
                        continue
                    a = base.attractor_of_state(base.state_from_tuple(sp))
                    c[att.index(a) if a is not None else "not-an-attractor"] += 1
            return c

        ha, hb = hit(sa, ident), hit(sb, to_base)
        if ha != hb:
            res.violate(f"attractors-differ:{case['mode']}", base=str(dict(ha)), transformed=str(dict(hb)), n_attractors=len(att))
    except Nonterminating:
        res.excluded = "nonterminating"
        return res
    except BBError as e:
        res.violate(f"exception:{e.kind}@{e.site}:{case['mode']}", error=str(e), tb=e.tb)
        return res
    order_changed = sorted(tnames) != [tnames[pos[o]] for o in range(n)] or case["decl_perm"] != list(range(n))
    res.nontrivial = (order_changed or bool(negate)) and len(n1) >= 3
    res.label(f"n={n}", f"mode={case['mode']}", f"style={case['style']}")
    if case["mode"] == "format":
        res.label("format=" + case["format"])
    if negate:
        res.label("negated")
    if order_changed:
        res.label("order-changed")
    return res
