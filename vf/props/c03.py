"""C03 - every complete expansion strategy finds exactly the minimal trap spaces."""

from __future__ import annotations

from hypothesis import strategies as st

from .. import gen, ops, sdcheck
from ..bb import BBError, Nonterminating, bnet_text, net_of
from ..runner import Result

ID = "C03"
LEVEL = "exploration"
BUDGET = {"quick": {"cases": 8000}, "thorough": {"cases": 120000, "soft_deadline": 1500}}
RULE = (
    "case = (network n<=6 [7]; final strategy with options: bfs, dfs, block(find_maa, optimize_source_nodes, exact), scc(find_maa), "
    "minimal-space(skip_ignored), attractor-seed (bfs/dfs also with level/stack limits), or any of them stopped by a generated size/level/stack limit; in 20% of the cases max_motifs_per_node in {1,2,3,5} (a limit error = no completion) and completed with "
    "skip_remaining() or skip_to_minimal() on every stub; for bfs/dfs/min/attr a pre-history of 0-5 plain expansion calls with arbitrary limits/start nodes); "
    "precondition = the strategy reported completion (or the diagram was completed by skipping); oracle = minimal_trap_spaces() "
    "equals the brute-force inclusion-minimal trap spaces as a duplicate-free list and node_is_minimal(i) <=> minimal for every "
    "expanded node; non-trivial = >=2 minimal trap spaces and >=1 unexpanded or skipped node in the result"
)

FINAL = st.one_of(
    st.fixed_dictionaries({"op": st.just("bfs"), "level": st.sampled_from((None, None, 1, 2, 3))}),
    st.fixed_dictionaries({"op": st.just("dfs"), "stack": st.sampled_from((None, None, 0, 1, 2, 3))}),
    st.fixed_dictionaries({"op": st.just("block"), "maa": st.booleans(), "optsrc": st.booleans(), "exact": st.booleans()}),
    st.fixed_dictionaries({"op": st.just("scc"), "maa": st.booleans()}),
    st.fixed_dictionaries({"op": st.just("min"), "skip_ignored": st.booleans()}),
    st.fixed_dictionaries({"op": st.just("attr")}),
)


@st.composite
def _case(draw, max_n):
    nj = draw(gen.networks(max_n=max_n, core_weight=2, kinds=("deep", "diamond", "maa", "edge2")))
    n = len(nj["names"])
    fin = dict(draw(FINAL))
    c = {"net": nj, "final": fin, "pre": [], "size": None, "config": {}}
    if draw(st.integers(0, 4)) == 0:
        c["config"] = {"max_motifs_per_node": draw(st.sampled_from((1, 2, 3, 5)))}
    if fin["op"] in ("bfs", "dfs", "min", "attr") and draw(st.booleans()):
        c["pre"] = draw(ops.steps(ops.PLAIN_OPS, n, 1, 5))
    if draw(st.integers(0, 3)) == 0:
        c["size"] = draw(st.sampled_from((1, 2, 3, 4, 6, 8)))
    # how an early-stopped diagram is completed: skip_remaining(), or skip_to_minimal() on every stub in a generated order
    c["complete_by"] = draw(st.sampled_from(("skip_remaining", "skip_to_minimal:id", "skip_to_minimal:rev")))
    return c


def strategy(tier):
    return _case(6 if tier == "quick" else 7)


def describe(case):
    return f"{bnet_text(case['net'])} | pre: {ops.fmt_steps(case['pre'])} | final: {case['final']} size_limit={case['size']} config={case.get('config')}"


def _final_step(fin, size):
    op = fin["op"]
    if op == "bfs":
        return {"op": "bfs", "node": None, "level": fin.get("level"), "size": size}
    if op == "dfs":
        return {"op": "dfs", "node": None, "stack": fin.get("stack"), "size": size}
    if op == "block":
        return {"op": "block", "maa": fin["maa"], "size": size, "optsrc": fin["optsrc"], "exact": fin["exact"]}
    if op == "scc":
        return {"op": "scc", "maa": fin["maa"]}
    if op == "min":
        return {"op": "minskip" if fin["skip_ignored"] else "min", "node": None, "size": size}
    if op == "attr":
        return {"op": "attr", "size": size}
    raise ValueError(op)


def run_case(case) -> Result:
    res = Result()
    net = net_of(case)
    fin = case["final"]
    tag = fin["op"] + ("+" + "+".join(k for k, v in fin.items() if v is True) if any(v is True for v in fin.values()) else "")
    try:
        cfg = case.get("config") or {}
        h = ops.History(net, cfg)
        for s in case["pre"]:
            out = h.apply(s)
            if out.kind != "ok":
                if cfg and "Exceeded the maximum amount of stable motifs" in str(out.exc):
                    res.excluded = "motif_limit_error"
                    return res
                res.violate(f"unexpected-RuntimeError:{s['op']}", error=str(out.exc))
                return res
        out = h.apply(_final_step(fin, case["size"]))
        if out.kind != "ok":
            if cfg and "Exceeded the maximum amount of stable motifs" in str(out.exc):
                # the documented resource-limit error: the strategy did not report completion
                res.excluded = "motif_limit_error"
                return res
            res.violate(f"unexpected-RuntimeError:{fin['op']}", error=str(out.exc))
            return res
        completed = out.ret is True
        skipped_rest = False
        if not completed:
            if case["size"] is None and fin.get("level") is None and fin.get("stack") is None:
                res.violate(f"{tag}:unlimited-strategy-did-not-report-completion", ret=str(out.ret))
                return res
            how = case.get("complete_by", "skip_remaining")
            if how == "skip_remaining":
                out2 = h.apply({"op": "skiprem"})
                if out2.kind != "ok":
                    res.violate("unexpected-RuntimeError:skiprem", error=str(out2.exc))
                    return res
            else:
                for _round in range(64):
                    stubs = list(h.sd.stub_ids())
                    if not stubs:
                        break
                    i = stubs[0] if how.endswith(":id") else stubs[-1]
                    out2 = h.apply({"op": "skip", "node": i})
                    if out2.kind != "ok":
                        res.violate("unexpected-RuntimeError:skip_to_minimal", error=str(out2.exc))
                        return res
            skipped_rest = True
    except Nonterminating:
        res.excluded = "nonterminating"
        return res
    except BBError as e:
        res.violate(f"exception:{e.kind}@{e.site}", error=str(e), tb=e.tb)
        return res
    sd = h.sd
    sdcheck.check_minimal(sd, net, res, f"{tag}{'+' + case.get('complete_by', 'skip_remaining').split(':')[0] if skipped_rest else ''}")
    pruned = any(True for _ in sd.stub_ids()) or any(sd.node_data(i)["skipped"] for i in sd.node_ids())
    res.nontrivial = len(net.min_traps()) >= 2 and pruned
    res.label(f"n={net.n}", "final:" + tag, "pre" if case["pre"] else "fresh")
    if skipped_rest:
        res.label("completed-by-skip_remaining")
    return res
