"""C11 - percolation computes exactly the logical domain of influence."""

from __future__ import annotations

import itertools

from hypothesis import strategies as st

from .. import gen
from ..adapter import to_bn
from ..bb import BBError, Nonterminating, bnet_text, call, fmt_space, net_of, sd_space
from ..runner import Result

ID = "C11"
LEVEL = "exploration"
BUDGET = {"quick": {"cases": 24000}, "thorough": {"cases": 400000, "soft_deadline": 1500}}
RULE = (
    "case = (network n<=6 [8], subspace: random partial assignment incl. conflicting ones, or an oracle trap space); oracle = "
    "least fixed point of value propagation over explicit truth tables (strict variant per DESIGN appendix A); checks "
    "percolate_space (+idempotence, trap-space closure), percolate_space_strict, percolation_conflicts(strict=False), "
    "find_single_node_LDOIs, find_single_drivers; non-trivial = propagation needs >=2 rounds or a given value conflicts"
)
EXHAUSTIVE_NOTE = "all 4 one-variable and 256 two-variable networks x all 3^n subspaces"
ASSUMPTIONS = [
    "strict percolation / LDOI clauses are asserted only for networks without free (update-less) inputs: AEON models such an input "
    "as an uninterpreted parameter and the property statement does not say how the strict variant treats it"
]


@st.composite
def _case(draw, max_n):
    nj = draw(gen.networks(max_n=max_n, core_weight=1))
    n = len(nj["names"])
    mode = draw(st.sampled_from(("random", "random", "trap", "single")))
    return {"net": nj, "given_sp": draw(gen.spaces_of(n, p_fixed=0.3)), "mode": mode, "pick": draw(st.integers(0, 1000))}


def strategy(tier):
    return _case(6 if tier == "quick" else 8)


def exhaustive(tier):
    from .c09 import exhaustive as e9

    nets, seen = [], set()
    for c in e9(tier):
        k = str(c["net"])
        if k not in seen:
            seen.add(k)
            nets.append(c["net"])
    if tier == "thorough":
        from .c09 import three_var_slice

        nets += three_var_slice(16411)
    out = []
    for nj in nets:
        for sp in itertools.product((None, 0, 1), repeat=len(nj["names"])):
            out.append({"net": nj, "given_sp": list(sp), "mode": "random", "pick": 0})
    return out


def describe(case):
    net = net_of(case)
    return f"{bnet_text(case['net'])} | space={fmt_space(net, _given(net, case))} mode={case['mode']}"


def _given(net, case):
    if case["mode"] == "trap":
        ts = net.trap_spaces()
        return ts[case["pick"] % len(ts)]
    if case["mode"] == "single":
        i = case["pick"] % net.n
        return tuple((case["pick"] // net.n) % 2 if k == i else None for k in range(net.n))
    return tuple(case["given_sp"])


def run_case(case) -> Result:
    from biodivine_aeon import AsynchronousGraph

    from biobalm.drivers import find_single_drivers, find_single_node_LDOIs
    from biobalm.space_utils import percolate_space, percolate_space_strict, percolation_conflicts

    res = Result()
    net = net_of(case)
    has_free = any(t is None for t in net.tables)
    bn = to_bn(net, via="api")
    given = _given(net, case)
    gd = net.sp2d(given)
    try:
        graph = call(AsynchronousGraph, bn)
        got = call(percolate_space, graph, dict(gd))
        exp = net.perc(given)
        try:
            gsp = sd_space(net, got)
        except KeyError:
            res.violate("perc:unknown-variable", got=str(got))
            return res
        if gsp != exp:
            res.violate("perc:wrong", given=fmt_space(net, given), got=fmt_space(net, gsp), expected=fmt_space(net, exp))
        else:
            again = sd_space(net, call(percolate_space, graph, dict(got)))
            if again != gsp:
                res.violate("perc:not-idempotent", first=fmt_space(net, gsp), second=fmt_space(net, again))
            if net.is_trap(given):
                if not net.is_trap(gsp) or not net.sub(gsp, given):
                    res.violate("perc:trap-space-not-preserved", given=fmt_space(net, given), got=fmt_space(net, gsp))
        # non-strict conflicts
        conf = call(percolation_conflicts, graph, dict(gd), strict_percolation=False)
        econf = {net.names[i] for i in net.perc_conflicts(given)}
        if set(conf) != econf:
            res.violate("conflicts:wrong", given=fmt_space(net, given), got=sorted(conf), expected=sorted(econf))
        if not set(conf) <= set(gd):
            res.violate("conflicts:not-subset-of-given", got=sorted(conf))
        if not has_free:
            sgot = call(percolate_space_strict, graph, dict(gd))
            sexp = {net.names[i]: v for i, v in net.perc_strict(given).items()}
            if {k: int(v) for k, v in sgot.items()} != sexp:
                res.violate("strict:wrong", given=fmt_space(net, given), got=str(dict(sorted(sgot.items()))), expected=str(dict(sorted(sexp.items()))))
            if case["mode"] == "single" or case["pick"] % 4 == 0:
                ld = call(find_single_node_LDOIs, graph)
                ekeys = {(net.names[i], b) for i in range(net.n) if net.global_const(i) is None for b in (0, 1)}
                if set(ld.keys()) != ekeys:
                    res.violate("ldoi:keys", got=sorted(ld.keys()), expected=sorted(ekeys))
                else:
                    eld = {}
                    for (nm, b) in ekeys:
                        i = net.names.index(nm)
                        g1 = tuple(b if k == i else None for k in range(net.n))
                        eld[(nm, b)] = {net.names[k]: v for k, v in net.perc_strict(g1).items()}
                        if {k: int(v) for k, v in ld[(nm, b)].items()} != eld[(nm, b)]:
                            res.violate("ldoi:value", key=[nm, b], got=str(dict(sorted(ld[(nm, b)].items()))), expected=str(dict(sorted(eld[(nm, b)].items()))))
                            break
                    else:
                        if gd:
                            drv = call(find_single_drivers, dict(gd), graph)
                            edrv = {k for k, l in eld.items() if set(gd.items()) <= (set(l.items()) | {k})}
                            if set(drv) != edrv:
                                res.violate("drivers:wrong", target=fmt_space(net, given), got=sorted(drv), expected=sorted(edrv))
                res.label("ldoi-checked")
    except Nonterminating:
        res.excluded = "nonterminating"
        return res
    except BBError as e:
        res.violate(f"exception:{e.kind}@{e.site}", error=str(e), tb=e.tb)
        return res
    rounds = net.perc_rounds(given)
    conflict = bool(net.perc_conflicts(given))
    res.nontrivial = rounds >= 2 or conflict
    res.label(f"mode={case['mode']}", "rounds>=2" if rounds >= 2 else "rounds<2")
    if conflict:
        res.label("conflict")
    if has_free:
        res.label("free-input")
    return res
