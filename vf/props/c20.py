"""C20 - reported diagram metadata is accurate."""

from __future__ import annotations

import re

from hypothesis import strategies as st

from .. import gen, ops, sdcheck
from ..bb import BBError, Nonterminating, bnet_text, call, fmt_space, net_of, sd_space
from ..runner import Result

ID = "C20"
LEVEL = "exploration"
BUDGET = {"quick": {"cases": 10000}, "thorough": {"cases": 120000, "soft_deadline": 1500}}
RULE = (
    "case = (network n<=7 weighted to diamond/deep cores, history A of 1-6 expansion/skip/block/scc/build calls, attractor queries, reclaim and pickle, second "
    "history B on the same or a mutated network, find_node queries, optional final build()); oracle after every step: depth(i) = "
    "longest root->i path recomputed from the DAG, depth() = max, ids contiguous from root 0, len, stub/expanded partition, "
    "find_node = exact space match; at the end is_subgraph/is_isomorphic = node+edge set inclusion/equality, and summary() after "
    "build() lists every brute-force attractor exactly once with the right label; non-trivial = a node with >=2 parents at "
    "different depths, or stubs present when build()/summary() runs"
)
OPS = ops.PLAIN_OPS + ops.SKIP_OPS + ops.STRUCT_OPS + ("bfs", "dfs", "succ", "succ", "seeds", "allseeds", "reclaim", "pickle")


@st.composite
def _case(draw, max_n):
    nj = draw(gen.networks(max_n=max_n, core_weight=3, kinds=("diamond", "deep", "edge2", "maa", "raise2", "raise2")))
    n = len(nj["names"])
    c = {
        "net": nj,
        # half of the histories end with an unrestricted bfs/dfs so that long re-discovered paths occur
        "steps": draw(ops.steps(OPS, n, 1, 6))
        + draw(st.sampled_from(([], [], [{"op": "bfs", "node": None, "level": None, "size": None}], [{"op": "dfs", "node": None, "stack": None, "size": None}]))),
        "post": draw(ops.steps(OPS, n, 0, 4)),
        "query_sps": draw(st.lists(gen.spaces_of(n, p_fixed=0.5), max_size=3)),
        "final_build": draw(st.booleans()),
        "other": draw(st.sampled_from(("same", "same", "mutated", "reordered"))),
        "mut": draw(st.tuples(st.integers(0, 50), st.integers(0, 50))),
    }
    return c


def strategy(tier):
    return _case(7)


def describe(case):
    return f"{bnet_text(case['net'])} | A: {ops.fmt_steps(case['steps'])} | B({case['other']}): {ops.fmt_steps(case['post'])} | final_build={case['final_build']}"


def _mutate(nj, mut):
    """flip one table entry (same variables, usually different dynamics)"""
    i, k = mut
    n = len(nj["names"])
    i %= n
    t = nj["tables"][i]
    if t is None:
        return nj
    tabs = [None if x is None else list(x) for x in nj["tables"]]
    tabs[i][k % len(t)] ^= 1
    return {"names": nj["names"], "regs": nj["regs"], "tables": tabs}


def _check_meta(sd, net, res, tag, queries):
    ok = True
    n_nodes = len(sd)
    ids = list(sd.node_ids())
    if ids != list(range(n_nodes)) or set(sd.dag.nodes) != set(ids) or sd.root() != 0:
        res.violate(f"{tag}:ids-not-contiguous", ids=ids[:10], dag=sorted(sd.dag.nodes)[:10])
        return False
    stubs = list(sd.stub_ids())
    exps = list(sd.expanded_ids())
    flags = [bool(sd.node_data(i)["expanded"]) for i in ids]
    if sorted(stubs + exps) != ids or any(flags[i] for i in stubs) or any(not flags[i] for i in exps):
        res.violate(f"{tag}:stub-expanded-partition", stubs=stubs, expanded=exps)
        ok = False
    want = sdcheck.longest_depths(sd)
    got = {i: sd.node_data(i)["depth"] for i in ids}
    bad = [i for i in ids if got[i] != want[i]]
    if bad:
        res.violate(f"{tag}:depth", node=bad[0], got=got[bad[0]], expected=want[bad[0]], n_bad=len(bad))
        ok = False
    if sd.depth() != max(got.values()):
        res.violate(f"{tag}:diagram-depth-not-max", got=sd.depth(), node_depths_max=max(got.values()))
        ok = False
    spaces = sdcheck.node_spaces(sd, net)
    qs = [tuple(q) for q in queries] + spaces[:3]
    # spaces that percolate to a node but are not one: the unpercolated motifs
    for (a, b) in list(sd.dag.edges)[:3]:
        qs.append(sd_space(net, sd.edge_stable_motif(a, b)))
    for q in qs:
        exp = spaces.index(q) if q in spaces else None
        g = sd.find_node(net.sp2d(q))
        if g != exp:
            res.violate(f"{tag}:find_node", query=fmt_space(net, q), got=g, expected=exp)
            ok = False
    if sd.find_node({"no_such_variable_zz": 1}) is not None:
        res.violate(f"{tag}:find_node-unknown-variable")
        ok = False
    return ok


def _sets(sd, net):
    spaces = sdcheck.node_spaces(sd, net)
    nodes = set(spaces)
    edges = {(spaces[a], spaces[b]) for a, b in sd.dag.edges}
    return nodes, edges


HDR = re.compile(r"^Succession Diagram with (\d+) nodes and depth (\d+)\.$")


def _check_summary(sd, net, res):
    text = call(sd.summary)
    lines = text.split("\n")
    m = HDR.match(lines[0])
    if not m or int(m.group(1)) != len(sd) or int(m.group(2)) != max(sdcheck.longest_depths(sd).values()):
        res.violate("summary:header", header=lines[0], nodes=len(sd), depth=max(sdcheck.longest_depths(sd).values()))
    order = sorted(net.names)
    blocks, cur = [], None
    for ln in lines[5:]:
        if ln.startswith("minimal trap space ") or ln.startswith("motif avoidance in "):
            cur = {"label": ln[:18].strip(), "space": ln[19:], "states": []}
            blocks.append(cur)
        elif ln.startswith(".") and cur is not None:
            cur["states"].append(ln.lstrip("."))
    att = net.attractors()
    mts = net.min_traps()
    hits = {a: 0 for a in att}
    for b in blocks:
        for stt in b["states"]:
            if len(stt) != net.n or set(stt) - {"0", "1"}:
                res.violate("summary:state-format", state=stt)
                continue
            d = {nm: int(c) for nm, c in zip(order, stt)}
            s = net.state_from_dict(d)
            a = net.attractor_of_state(s)
            if a is None:
                res.violate("summary:listed-state-not-in-attractor", state=stt)
                continue
            hits[a] += 1
            in_min = any(net.attr_in_space(a, t) for t in mts)
            if (b["label"] == "minimal trap space") != in_min:
                res.violate("summary:wrong-label", label=b["label"], space=b["space"], state=stt, attractor_in_minimal_trap_space=in_min)
    for a, k in hits.items():
        if k == 0:
            if any(sd.node_data(i)["skipped"] for i in sd.node_ids()) and net.is_maa(a):
                # whether skip nodes can lose a motif-avoidant attractor is decided by C05 (known finding F5 there)
                res.count("skipnode_maa_not_listed_deferred_to_C05")
                continue
            res.violate("summary:attractor-not-listed", attractor=sorted(net.state_tuple(s) for s in a)[:3])
        elif k > 1:
            # documented exception (NodeData.skipped): with skip nodes a motif-avoidant attractor may be found in several of them
            has_skip = any(sd.node_data(i)["skipped"] for i in sd.node_ids())
            if has_skip and net.is_maa(a):
                res.count("skipnode_maa_overcount_allowed")
                continue
            # which nodes list it, and does one of them lack successors it has in the reference diagram (F10)?
            from ..bb import full_state
            from ..oracle import RefSD

            spaces = sdcheck.node_spaces(sd, net)
            reporters = [
                i
                for i in sd.node_ids()
                if any(full_state(net, s) in a for s in (sd.node_data(i)["attractor_seeds"] or []) if full_state(net, s) is not None)
            ]
            ref = RefSD(net)
            incomplete = any(
                spaces[i] in ref.children and set(ref.children[spaces[i]]) - {spaces[j] for j in sd.dag.successors(i)} for i in reporters
            )
            res.violate(
                "summary:attractor-listed-more-than-once",
                times=k,
                attractor=sorted(net.state_tuple(s) for s in a)[:3],
                maa=net.is_maa(a),
                reporter_with_incomplete_successors=bool(incomplete),
            )


def _trig_f10(case, detail):
    """F10 (see C01): the history used expand_scc, the attractor listed twice is motif-avoidant and one of the nodes
    listing it was marked expanded by sub-diagram attachment with only part of its successors"""
    used_scc = any(s["op"] == "scc" for s in case["steps"])
    return used_scc and detail.get("maa") is True and detail.get("reporter_with_incomplete_successors") is True


TRIGGERS = {"scc_maa_under_partially_attached_node": _trig_f10}


def run_case(case) -> Result:
    res = Result()
    net = net_of(case)
    multi_depth_parent = False
    stubs_at_build = False
    try:
        h = ops.History(net)
        _check_meta(h.sd, net, res, "fresh", case["query_sps"])
        for k, s in enumerate(case["steps"]):
            out = h.apply(s)
            if out.kind != "ok":
                res.count("runtime_errors")
                break
            if not _check_meta(h.sd, net, res, f"after:{s['op']}", case["query_sps"]):
                for v in res.violations:
                    v[1].setdefault("step", k)
                break
        sd = h.sd
        dep = sdcheck.longest_depths(sd)
        for v in sd.dag.nodes:
            if len({dep[p] for p in sd.dag.predecessors(v)}) >= 2:
                multi_depth_parent = True
        # second diagram
        if case["other"] == "reordered" and any(t is None for t in net.tables):
            case = {**case, "other": "same"}  # (the table transformer does not handle update-less inputs)
        if case["other"] == "reordered":
            # the same network declared in reversed variable order (names follow their variables)
            from .c17 import transform

            n_ = net.n
            net2, _pos = transform(case["net"], net.names, list(reversed(range(n_))), [])
            h2 = ops.History(net2, via="api")
        else:
            net2 = net if case["other"] == "same" else net_of({"net": _mutate(case["net"], case["mut"])})
            h2 = ops.History(net2)
        for s in case["post"]:
            out = h2.apply(s)
            if out.kind != "ok":
                break
        na, ea = _sets(sd, net)
        nb, eb = _sets(h2.sd, net2)
        if case["other"] == "reordered":
            # express B's spaces in A's variable order
            idx = [net2.names.index(nm) for nm in net.names]
            cv = lambda sp: tuple(sp[k] for k in idx)  # noqa
            nb = {cv(x) for x in nb}
            eb = {(cv(x), cv(y)) for x, y in eb}
        for (x, y, nx_, ex, ny, ey, tag) in ((sd, h2.sd, na, ea, nb, eb, "A<=B"), (h2.sd, sd, nb, eb, na, ea, "B<=A")):
            exp = nx_ <= ny and ex <= ey
            got = call(x.is_subgraph, y)
            if bool(got) != exp:
                res.violate(
                    "is_subgraph:wrong",
                    which=tag,
                    got=bool(got),
                    expected=exp,
                    only_root=(len(x) == 1),
                    other=case["other"],
                )
        iso = call(sd.is_isomorphic, h2.sd)
        if bool(iso) != (na == nb and ea == eb):
            res.violate("is_isomorphic:wrong", got=bool(iso), expected=(na == nb and ea == eb), other=case["other"])
        if case["final_build"]:
            stubs_at_build = any(True for _ in sd.stub_ids())
            out = h.apply({"op": "build"})
            if out.kind == "ok":
                _check_meta(h.sd, net, res, "after:final-build", [])
                _check_summary(h.sd, net, res)
                if any(True for _ in h.sd.stub_ids()):
                    stubs_at_build = True
    except Nonterminating:
        res.excluded = "nonterminating"
        return res
    except BBError as e:
        res.violate(f"exception:{e.kind}@{e.site}", error=str(e), tb=e.tb)
        return res
    res.nontrivial = multi_depth_parent or (case["final_build"] and stubs_at_build)
    res.label(f"n={net.n}")
    if multi_depth_parent:
        res.label("parents-at-different-depths")
    if case["final_build"]:
        res.label("summary-checked")
        if stubs_at_build:
            res.label("stubs-at-build")
    return res
