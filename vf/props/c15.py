"""C15 - early stops and limit errors leave a valid, resumable diagram."""

from __future__ import annotations

from hypothesis import strategies as st

from .. import gen, ops, sdcheck
from ..adapter import vertex_set_states
from ..bb import BBError, Nonterminating, bnet_text, fmt_space, full_state, net_of
from ..guard import FAULTS
from ..oracle import RefSD, node_attractors
from ..runner import Result

ID = "C15"
LEVEL = "fault_enumeration"
BUDGET = {"quick": {"cases": 4000, "soft_deadline": 220}, "thorough": {"cases": 30000, "soft_deadline": 1500}}
RULE = (
    "case = (network n<=5 [6], history of 1-5 plain expansion calls and attractor queries with generated size/level/stack limits, "
    "mode): mode 'faults' re-runs the history once per solver call k=1..K with the k-th clingo solve() raising (ALL K fault "
    "points of the history are enumerated); mode 'blocklimits' runs expand_block/build on motif-avoidant networks under candidate limits that make the motif-avoidance check give up, then relaxes them and demands every attractor exactly once; mode 'limits' runs it with max_motifs_per_node / attractor_candidates_limit in "
    "{0,1,2,3,5} (and retained_set_optimization_threshold in {0,1,2} so that the candidate limit can fire on the default path).  Oracle: after every False return or RuntimeError the diagram satisfies the C04 invariants against the "
    "brute-force reference diagram and the C14 cache invariant; retrying the interrupted call without fault / with relaxed limits "
    "and finishing the history gives a diagram equal by value (spaces, edges, motif multisets, flags, cached candidates/seeds/"
    "sets) to the never-interrupted run; a True return means the call's contract is complete; a size-limited call returns False "
    "only if an unexpanded node remains in its scope.  non-trivial = a fault/limit fired after >=1 node had been expanded; "
    "distinct by (case, fault index)"
)
ASSUMPTIONS = [
    "solver faults are injected at biobalm.trappist_core.Control.solve(); failures inside AEON are not modelled",
    "block/scc expansion are exercised only for validity after an interruption (a failed candidate search legitimately changes the block choice)",
]

OPS = ops.PLAIN_OPS + ("cands", "seeds", "sets", "bfs", "dfs", "succ")
OPS_NOBLOCK = tuple(o for o in OPS if o != "block_plain")


@st.composite
def _case(draw, max_n):
    nj = draw(gen.networks(max_n=max_n, core_weight=3, kinds=("maa", "deep", "diamond", "multi", "edge2", "edge2")))
    n = len(nj["names"])
    mode = draw(st.sampled_from(("faults", "limits", "limits", "blocklimits")))
    c = {"net": nj, "mode": mode}
    if mode == "blocklimits":
        # block / scc expansion under candidate limits that make the motif-avoidance check give up, on networks
        # with motif-avoidant attractors; afterwards the limits are relaxed and all attractors are asked for
        c["net"] = draw(gen.networks(max_n=max_n, core_weight=8, kinds=("maa",)))
        c["steps"] = [
            draw(
                st.sampled_from(
                    (
                        {"op": "block", "maa": True, "size": None, "optsrc": True, "exact": False},
                        {"op": "block", "maa": True, "size": None, "optsrc": False, "exact": False},
                        {"op": "block", "maa": True, "size": None, "optsrc": True, "exact": True},
                        {"op": "build"},
                    )
                )
            )
        ]
        c["config"] = {
            "retained_set_optimization_threshold": draw(st.sampled_from((0, 1, 2))),
            "attractor_candidates_limit": draw(st.sampled_from((1, 2, 3))),
        }
        return c
    if mode == "faults":
        c["steps"] = draw(ops.steps(OPS_NOBLOCK, n, 1, 4))
        c["config"] = {}
    else:
        c["steps"] = draw(ops.steps(OPS, n, 1, 5))
        c["config"] = draw(
            st.fixed_dictionaries(
                {},
                optional={
                    "max_motifs_per_node": st.sampled_from((0, 1, 2, 3, 5)),
                    "attractor_candidates_limit": st.sampled_from((0, 1, 2, 3, 5)),
                    # a small threshold routes the candidate search through the regeneration branch, where the
                    # candidate limit can fire with the default (greedy) options as well
                    "retained_set_optimization_threshold": st.sampled_from((0, 1, 2)),
                },
            )
        )
    return c


def strategy(tier):
    return _case(5 if tier == "quick" else 6)


def describe(case):
    return f"{bnet_text(case['net'])} | mode={case['mode']} config={case['config']} | {ops.fmt_steps(case['steps'])}"


# ------------------------------------------------------------------ value dump
def value_dump(sd, net):
    spaces = sdcheck.node_spaces(sd, net)
    att = net.attractors()
    out = {}
    for i in sd.node_ids():
        d = sd.node_data(i)
        succ = {}
        for j in sd.dag.successors(i):
            succ[spaces[j]] = sorted(sdcheck.sd_space(net, m) if False else tuple(sorted(m.items())) for m in sd.edge_all_stable_motifs(i, j))
        seeds = None
        if d["attractor_seeds"] is not None:
            seeds = sorted(
                (att.index(net.attractor_of_state(full_state(net, s))) if full_state(net, s) is not None and net.attractor_of_state(full_state(net, s)) is not None else -1)
                for s in d["attractor_seeds"]
            )
        cands = None
        if d["attractor_candidates"] is not None:
            cands = sorted(tuple(sorted(c.items())) for c in d["attractor_candidates"])
        sets = None
        if d["attractor_sets"] is not None:
            sets = sorted(tuple(vertex_set_states(sd, vs)) for vs in d["attractor_sets"])
        out[spaces[i]] = (bool(d["expanded"]), bool(d["skipped"]), tuple(sorted(succ.items(), key=str)), seeds, cands, sets)
    return out


FIELDS = ("expanded", "skipped", "successors/motifs", "seeds", "candidates", "sets")


def diff_dump(a, b, net, ignore=()):
    if a == b:
        return None
    for k in sorted(set(a) | set(b), key=str):
        x, y = a.get(k), b.get(k)
        if x is None or y is None:
            return {"space": fmt_space(net, k), "field": "node-missing", "resumed": str(x)[:200], "uninterrupted": str(y)[:200]}
        for nm, u, v in zip(FIELDS, x, y):
            if nm in ("seeds", "sets") and "candidates" in ignore and (u is None or v is None):
                # with legitimately different candidate lists one run may already know "no attractor here"
                # (empty candidates are propagated to seeds) while the other has not computed seeds yet
                continue
            if u != v and nm not in ignore:
                return {"space": fmt_space(net, k), "field": nm, "resumed": str(u)[:200], "uninterrupted": str(v)[:200]}
    return None


# ------------------------------------------------------------------ contract of a True / False return
def _reachable(sd, start):
    seen = {start}
    st_ = [start]
    while st_:
        x = st_.pop()
        for y in sd.dag.successors(x):
            if y not in seen:
                seen.add(y)
                st_.append(y)
    return seen


def check_return(h, net, s, ret, res, size_before):
    sd = h.sd
    op = s["op"]
    if op not in ("bfs", "dfs", "min", "attr", "target", "block_plain"):
        return
    start = 0 if op in ("attr", "target", "block_plain") else (h.node(s.get("node")) or 0)
    reach = _reachable(sd, start)
    spaces = sdcheck.node_spaces(sd, net)
    unexp = [i for i in reach if not sd.node_data(i)["expanded"]]
    if ret is True:
        if op in ("bfs", "dfs") and unexp:
            res.violate(f"true-but-incomplete:{op}", unexpanded=len(unexp), step=ops.fmt_step(s))
        if op == "min":
            mts = [t for t in net.min_traps() if net.sub(t, spaces[start])]
            have = {spaces[i] for i in reach if sd.node_is_minimal(i)}
            if set(mts) - have:
                res.violate("true-but-incomplete:min", missing=[fmt_space(net, t) for t in set(mts) - have])
        if op == "target":
            tgt = tuple(s["target_sp"])
            for i in reach:
                if sd.node_data(i)["expanded"]:
                    continue
                sp = spaces[i]
                if net.inter(sp, tgt) is not None and not (net.sub(sp, tgt) and sp != tgt):
                    res.violate("true-but-incomplete:target", node=i, space=fmt_space(net, sp), target=fmt_space(net, tgt))
                    break
        if op == "attr":
            # every attractor must lie in an expanded node and in none of that node's successors
            for a in net.attractors():
                ok = False
                for i in sd.expanded_ids():
                    if net.attr_in_space(a, spaces[i]) and not any(net.attr_in_space(a, spaces[j]) for j in sd.dag.successors(i)):
                        ok = True
                        break
                if not ok:
                    res.violate("true-but-incomplete:attr", attractor=sorted(net.state_tuple(x) for x in a)[:3])
                    break
    elif ret is False:
        only_size = s.get("size") is not None and s.get("level") is None and s.get("stack") is None
        if only_size and not unexp:
            res.violate(f"false-but-complete:{op}", size_limit=s["size"], diagram_size=len(sd), size_before=size_before, step=ops.fmt_step(s))


def _is_limit_error(e):
    return "Exceeded the maximum amount" in str(e)


def _resolve(h, s):
    """fix the node argument (given modulo len(sd)) so that a retry addresses the same node"""
    if s.get("node") is None:
        return s
    s2 = dict(s)
    s2["node"] = h.node(s["node"])
    return s2


def run_case(case) -> Result:
    res = Result()
    net = net_of(case)
    ref = RefSD(net)
    steps = case["steps"]
    plain_only = all(s["op"] != "block_plain" for s in steps)
    try:
        if case["mode"] == "faults":
            _run_faults(case, net, ref, steps, res)
        elif case["mode"] == "blocklimits":
            _run_blocklimits(case, net, res)
        else:
            _run_limits(case, net, ref, steps, res, plain_only)
    except Nonterminating:
        res.excluded = "nonterminating"
        FAULTS.reset(None)
        return res
    except BBError as e:
        FAULTS.reset(None)
        res.violate(f"exception:{e.kind}@{e.site}", error=str(e), tb=e.tb)
        return res
    finally:
        FAULTS.reset(None)
    res.label(f"n={net.n}", f"mode={case['mode']}")
    return res


def _valid(h, net, ref, res, tag):
    a = sdcheck.check_partial(h.sd, net, ref, res, f"{tag}:structure")
    b = sdcheck.check_cache(h.sd, net, res, f"{tag}:cache")
    return a and b


def _run_faults(case, net, ref, steps, res):
    FAULTS.install()
    # fault-free run (also evaluates the True/False contract clauses)
    FAULTS.reset(None)
    h0 = ops.History(net)
    for s in steps:
        before = len(h0.sd)
        s = _resolve(h0, s)
        out = h0.apply(s)
        if out.kind != "ok":
            res.violate(f"unexpected-RuntimeError:{s['op']}", error=str(out.exc))
            return
        check_return(h0, net, s, out.ret, res, before)
    K = FAULTS.calls
    base = value_dump(h0.sd, net)
    res.count("fault_points", K)
    fired_after_expansion = 0
    for k in range(1, K + 1):
        FAULTS.reset(k)
        h = ops.History(net)
        fired_here = False
        for idx, s in enumerate(steps):
            n_exp_before = sum(1 for _ in h.sd.expanded_ids())
            s = _resolve(h, s)
            out = h.apply(s)
            if out.kind == "runtime_error":
                if not FAULTS.fired or fired_here:
                    res.violate(f"unexpected-RuntimeError:{s['op']}", error=str(out.exc), fault=k)
                    return
                fired_here = True
                if n_exp_before >= 1 or sum(1 for _ in h.sd.expanded_ids()) >= 1:
                    fired_after_expansion += 1
                if not _valid(h, net, ref, res, f"after-fault:{s['op']}"):
                    for v in res.violations:
                        v[1].setdefault("fault", k)
                        v[1].setdefault("step", idx)
                    return
                FAULTS.fail_at = None
                out = h.apply(s)  # resume: repeat the interrupted call
                if out.kind != "ok":
                    res.violate(f"retry-failed:{s['op']}", error=str(out.exc), fault=k)
                    return
        ignore = ()
        if FAULTS.fired and not fired_here:
            # the failure was swallowed by the library (symbolic fallback): the diagram and the attractors must
            # still be right, but candidates/sets are legitimately cached differently
            res.count("swallowed_faults")
            ignore = ("candidates", "sets")
        d = diff_dump(value_dump(h.sd, net), base, net, ignore)
        if d is not None:
            op = "?"
            res.violate("resumed-differs-from-uninterrupted:fault", fault=k, **d)
            return
    res.count("faults_fired_after_expansion", fired_after_expansion)
    res.nontrivial = fired_after_expansion >= 1
    res.count("evaluated_fault_runs", K)


def _run_blocklimits(case, net, res):
    from biobalm import SuccessionDiagram

    from ..bb import call

    defaults = SuccessionDiagram.default_config()
    h = ops.History(net, dict(case["config"]))
    out = h.apply(case["steps"][0])
    fired = out.kind == "runtime_error"
    if fired and not _is_limit_error(out.exc):
        res.violate(f"unexpected-RuntimeError:{case['steps'][0]['op']}", error=str(out.exc))
        return
    # whatever was cached under the limits must be right
    if not sdcheck.check_cache(h.sd, net, res, f"blocklimits:after-{case['steps'][0]['op']}:cache"):
        return
    for kk in ("attractor_candidates_limit", "retained_set_optimization_threshold"):
        h.sd.config[kk] = defaults[kk]
    if out.kind == "ok" and out.ret in (True, None):
        # the expansion reported completion: with relaxed limits every attractor must be found exactly once
        att = net.attractors()
        hits = {a: 0 for a in att}
        for i in list(h.sd.expanded_ids()):
            for s in call(h.sd.node_attractor_seeds, i, compute=True):
                st_ = full_state(net, s)
                a = net.attractor_of_state(st_) if st_ is not None else None
                if a is not None:
                    hits[a] += 1
        for a, k in hits.items():
            if k != 1:
                res.violate(
                    "blocklimits:attractor-not-exactly-once-after-relaxing",
                    times=k,
                    maa=net.is_maa(a),
                    attractor=sorted(net.state_tuple(x) for x in a)[:3],
                    config=str(case["config"]),
                    step=ops.fmt_step(case["steps"][0]),
                )
                break
    res.nontrivial = any(net.is_maa(a) for a in net.attractors())
    res.label("blocklimits")
    if fired:
        res.label("limit-error-fired")


def _run_limits(case, net, ref, steps, res, plain_only):
    from biobalm import SuccessionDiagram

    defaults = SuccessionDiagram.default_config()
    cfg = dict(case["config"])
    early_after_exp_flag = []
    # uninterrupted run: default configuration, same history
    h0 = ops.History(net)
    for s in steps:
        before = len(h0.sd)
        s = _resolve(h0, s)
        out = h0.apply(s)
        if out.kind != "ok":
            res.violate(f"unexpected-RuntimeError:{s['op']}", error=str(out.exc))
            return
        check_return(h0, net, s, out.ret, res, before)
        if out.ret is False:
            _valid(h0, net, ref, res, f"after-early-stop:{s['op']}")
            if sum(1 for _ in h0.sd.expanded_ids()) >= 1:
                early_after_exp_flag.append(True)
    base = value_dump(h0.sd, net)
    h = ops.History(net, cfg)
    fired = 0
    fired_after_expansion = 0
    for idx, s in enumerate(steps):
        n_exp_before = sum(1 for _ in h.sd.expanded_ids())
        s = _resolve(h, s)
        out = h.apply(s)
        if out.kind == "runtime_error":
            if not _is_limit_error(out.exc):
                res.violate(f"unexpected-RuntimeError:{s['op']}", error=str(out.exc))
                return
            fired += 1
            if n_exp_before >= 1:
                fired_after_expansion += 1
            if not _valid(h, net, ref, res, f"after-limit-error:{s['op']}"):
                for v in res.violations:
                    v[1].setdefault("step", idx)
                return
            # relax the limits and repeat the interrupted call
            for kk in ("max_motifs_per_node", "attractor_candidates_limit", "retained_set_optimization_threshold"):
                h.sd.config[kk] = defaults[kk]
            out = h.apply(s)
            if out.kind != "ok":
                res.violate(f"retry-failed:{s['op']}", error=str(out.exc))
                return
        else:
            # no error under the small limit: the diagram must still be a valid partial diagram
            if not _valid(h, net, ref, res, f"under-limit:{s['op']}"):
                for v in res.violations:
                    v[1].setdefault("step", idx)
                    v[1].setdefault("config", str(cfg))
                return
    if plain_only:
        # a small optimisation threshold legitimately selects another retained set, i.e. other (equally valid)
        # candidate states; seeds (compared as attractors) and sets must still agree
        ignore = ("candidates",) if "retained_set_optimization_threshold" in cfg else ()
        if any(s.get("fallback") for s in steps):
            # a limit error swallowed by symbolic_fallback=True legitimately leaves candidates unset and sets computed
            ignore = ("candidates", "sets")
        d = diff_dump(value_dump(h.sd, net), base, net, ignore)
        if d is not None:
            res.violate("resumed-differs-from-uninterrupted:limit", config=str(cfg), **d)
    res.count("limit_errors", fired)
    res.nontrivial = fired_after_expansion >= 1 or bool(early_after_exp_flag)
    if early_after_exp_flag:
        res.label("early-stop-after-expansion")
    if fired:
        res.label("limit-error-fired")
