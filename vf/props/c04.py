"""C04 - lazily built diagrams are always a faithful part of the full diagram."""

from __future__ import annotations

from hypothesis import strategies as st

from .. import gen, ops, sdcheck
from ..bb import BBError, Nonterminating, bnet_text, net_of
from ..oracle import RefSD
from ..runner import Result

ID = "C04"
LEVEL = "exploration"
BUDGET = {"quick": {"cases": 6000}, "thorough": {"cases": 100000, "soft_deadline": 1500}}
RULE = (
    "case = (network n<=6 [7], history of 1-6 plain expansion calls: node_successors, expand_bfs/dfs/minimal_spaces/"
    "attractor_seeds/to_target/block(optimize_source_nodes=False) with generated start nodes and size/level/stack limits); "
    "oracle after EVERY step = reference succession diagram from brute-force trap-space enumeration (node spaces are reference "
    "nodes and unique, expanded => exact successors and motif multisets, unexpanded => no out-edges); at the end an unrestricted "
    "expand_bfs() must return True and give exactly the reference diagram; non-trivial = >=2 steps of >=2 kinds with an early "
    "stop (False) or a start at a non-root node, on a reference diagram with >=4 nodes"
)


@st.composite
def _case(draw, max_n):
    nj = draw(gen.networks(max_n=max_n, core_weight=2, kinds=("deep", "diamond", "edge2", "maa")))
    return {"net": nj, "steps": draw(ops.steps(ops.PLAIN_OPS, len(nj["names"]), 1, 6))}


def strategy(tier):
    return _case(6 if tier == "quick" else 7)


def describe(case):
    return f"{bnet_text(case['net'])} | {ops.fmt_steps(case['steps'])}"


def run_case(case) -> Result:
    res = Result()
    net = net_of(case)
    ref = RefSD(net)
    kinds, early, nonroot = set(), False, False
    try:
        h = ops.History(net)
        for k, s in enumerate(case["steps"]):
            out = h.apply(s)
            if out.kind != "ok":
                res.violate(f"unexpected-RuntimeError:{s['op']}", step=k, error=str(out.exc))
                return res
            kinds.add(s["op"])
            if out.ret is False:
                early = True
            if s.get("node") not in (None, 0) and h.node(s.get("node")) != 0:
                nonroot = True
            if not sdcheck.check_partial(h.sd, net, ref, res, f"after:{s['op']}"):
                for v in res.violations:
                    v[1]["step"] = k
                return res
        out = h.apply({"op": "bfs", "node": None, "level": None, "size": None})
        if out.kind != "ok":
            res.violate("unexpected-RuntimeError:final-bfs", error=str(out.exc))
            return res
        if out.ret is not True:
            res.violate("final-bfs:did-not-report-completion", ret=str(out.ret))
        sdcheck.check_full(h.sd, net, ref, res, "final")
    except Nonterminating:
        res.excluded = "nonterminating"
        return res
    except BBError as e:
        res.violate(f"exception:{e.kind}@{e.site}", error=str(e), tb=e.tb)
        return res
    res.nontrivial = len(case["steps"]) >= 2 and len(kinds) >= 2 and (early or nonroot) and len(ref.children) >= 4
    res.label(f"n={net.n}", f"steps={len(case['steps'])}")
    for k in kinds:
        res.label("op:" + k)
    if early:
        res.label("early-stop")
    if nonroot:
        res.label("non-root-start")
    return res
