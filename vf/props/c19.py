"""C19 - results are reproducible."""

from __future__ import annotations

import json
import os
import subprocess
import sys
import tempfile

from hypothesis import strategies as st

from .. import gen, ops
from ..bb import REPO, bnet_text
from ..runner import OUT_ROOT, VERIF, Result

ID = "C19"
LEVEL = "exploration"
BUDGET = {"quick": {"cases": 176, "soft_deadline": 200}, "thorough": {"cases": 5000, "soft_deadline": 1500}}
RULE = (
    "case = batch of 6 scenarios (network n<=7 with generated variable names, configuration incl. debug=True, history of 1-6 "
    "operations of every kind incl. succession_control with both strategies, symbolic fallback, failing calls) executed in 4 [16] "
    "FRESH interpreters with different PYTHONHASHSEED values, each in a different generated order with repetitions (so every "
    "scenario also runs twice in one process and after unrelated scenarios); oracle = the canonical dump of each scenario (node ids, "
    "spaces, edges with motif lists in stored order, depths, flags, cached seeds/candidates in stored order, enumerated sets, "
    "return values, summary(), repr of every intervention in returned order) is byte-identical in all executions; non-trivial = "
    "the scenario iterates a set of >=2 strings (control with strategy 'all' / block expansion) or uses the seeded simulator; "
    "evaluations counts scenario executions"
)
ASSUMPTIONS = ["reproducibility across machines / library versions cannot be varied here"]
OPS = ops.PLAIN_OPS + ops.SKIP_OPS + ops.ATTR_OPS + ops.STRUCT_OPS + ops.AUX_OPS + ("control", "control", "control", "block", "build", "seeds", "setcfg")
NAME_POOL = ["a", "B", "c1", "x_2", "Zed", "m", "k9", "q", "Ab", "aa", "y", "w0", "a_1", "B_x", "x"]


@st.composite
def _scenario(draw, max_n):
    nj = draw(gen.networks(max_n=max_n, core_weight=2, kinds=("maa", "deep", "edge2")))
    n = len(nj["names"])
    names = list(draw(st.permutations(NAME_POOL))[:n]) if draw(st.booleans()) else nj["names"]
    cfg = draw(
        st.one_of(
            st.just({}),
            st.just({}),
            st.fixed_dictionaries(
                {},
                optional={
                    "debug": st.just(True),
                    "attractor_candidates_limit": st.sampled_from((1, 2, 3)),
                    "retained_set_optimization_threshold": st.sampled_from((0, 1, 2)),
                    "max_motifs_per_node": st.sampled_from((2, 3, 5)),
                },
            ),
        )
    )
    steps = draw(ops.steps(OPS, n, 1, 6))
    if any(s["op"] == "control" for s in steps):
        # half of the control calls aim at a minimal trap space (so that successions and driver sets exist)
        from ..oracle import Net

        mts = Net.from_json(nj).min_traps()
        for s in steps:
            if s["op"] == "control" and draw(st.booleans()):
                t = list(mts[draw(st.integers(0, len(mts) - 1))])
                if any(v is not None for v in t):
                    s["target_sp"] = t
    return {
        "net": {"names": names, "regs": nj["regs"], "tables": nj["tables"]},
        "config": cfg,
        "via": "api",
        "steps": steps,
    }


@st.composite
def _tie_scenario(draw):
    """control with strategy 'all' where several override sets over the SAME variables exist (a latch driven by a
    parity-like function of two inputs), optionally next to a generated component - the shape in which the order of
    equally-named driver sets is decided by set iteration order"""
    # the two inputs form a bistable pair whose stable states give parity 0, so the latch v0/v1 has two minimal trap
    # spaces and the motif {v0:1,v1:1} can be driven by {v2,v3} under two different valuations
    kind = draw(st.sampled_from(("activation", "inhibition")))
    if kind == "activation":
        parity = [0, 1, 1, 0]
        r2, t2, r3, t3 = [3], [0, 1], [2], [0, 1]
    else:
        parity = [1, 0, 0, 1]
        r2, t2, r3, t3 = [3], [1, 0], [2], [1, 0]
    # v0 = v1 | g(v2, v3) ; v1 = v0
    tab0 = []
    for idx in range(8):
        y, a, b = (idx >> 2) & 1, (idx >> 1) & 1, idx & 1
        tab0.append(y | parity[(a << 1) | b])
    nj = {"names": ["v0", "v1", "v2", "v3"], "regs": [[1, 2, 3], [0], r2, r3], "tables": [tab0, [0, 1], t2, t3]}
    if draw(st.booleans()):
        extra = draw(gen.motif_rich(min_n=2, max_n=3))
        nj = gen.union(nj, extra)
    n = len(nj["names"])
    names = list(draw(st.permutations(NAME_POOL))[:n])
    target = [None] * n
    target[0] = target[1] = 1
    pre = draw(ops.steps(ops.PLAIN_OPS, n, 0, 2))
    ctl = {"op": "control", "target_sp": target, "strategy": "all", "maxd": draw(st.sampled_from((None, 2, 3)))}
    return {"net": {"names": names, "regs": nj["regs"], "tables": nj["tables"]}, "config": {}, "via": "api", "steps": pre + [ctl]}


def _sign_twin(sc, a, b):
    """copy of a scenario whose network has regulator (a mod k) of variable (b mod n) negated in the truth table"""
    nj = sc["net"]
    n = len(nj["names"])
    tabs = [None if t is None else list(t) for t in nj["tables"]]
    for off in range(n):
        i = (b + off) % n
        r = nj["regs"][i]
        if tabs[i] is None or not r:
            continue
        pos = a % len(r)
        k = len(r)
        t = tabs[i]
        tabs[i] = [t[idx ^ (1 << (k - 1 - pos))] for idx in range(1 << k)]
        break
    return {**sc, "net": {"names": nj["names"], "regs": nj["regs"], "tables": tabs}}


@st.composite
def _case(draw, tier):
    m = 6
    scs = [draw(_scenario(7)) for _ in range(m - 2)] + [draw(_tie_scenario())]
    # a "sign twin": same names, same wiring and same history as another scenario of the batch, but one regulator's
    # polarity flipped in every update function (results must not leak between networks that look alike)
    base = scs[draw(st.integers(0, m - 3))]
    scs.append(_sign_twin(base, draw(st.integers(0, 50)), draw(st.integers(0, 50))))
    k = 4 if tier == "quick" else 16
    orders = []
    for _ in range(k):
        perm = list(draw(st.permutations(list(range(m)))))
        rep = draw(st.lists(st.integers(0, m - 1), min_size=1, max_size=3))
        orders.append(perm + rep)
    return {"scenarios": scs, "orders": orders, "hashseeds": [draw(st.integers(0, 4000)) if i else 0 for i in range(k)]}


def strategy(tier):
    return _case(tier)


def describe(case):
    return " || ".join(f"{bnet_text(s['net'])} cfg={s['config']} | {ops.fmt_steps(s['steps'])}" for s in case["scenarios"][:2]) + " ..."


def simplifications(case):
    m = len(case["scenarios"])
    if m > 1:
        for drop in range(m):
            keep = [i for i in range(m) if i != drop]
            remap = {old: new for new, old in enumerate(keep)}
            yield {
                "scenarios": [case["scenarios"][i] for i in keep],
                "orders": [[remap[i] for i in o if i in remap] for o in case["orders"]],
                "hashseeds": case["hashseeds"],
            }
    for k, sc in enumerate(case["scenarios"]):
        for j in range(len(sc["steps"])):
            s2 = dict(sc, steps=sc["steps"][:j] + sc["steps"][j + 1 :])
            if s2["steps"]:
                yield {**case, "scenarios": case["scenarios"][:k] + [s2] + case["scenarios"][k + 1 :]}


def _run_sub(job, hashseed):
    tmpdir = os.path.join(OUT_ROOT, "tmp")
    os.makedirs(tmpdir, exist_ok=True)
    with tempfile.NamedTemporaryFile("w", suffix=".json", delete=False, dir=tmpdir) as f:
        json.dump(job, f)
        path = f.name
    try:
        env = dict(os.environ, PYTHONHASHSEED=str(hashseed), PYTHONPATH=f"{REPO}:{VERIF}")
        p = subprocess.run([sys.executable, "-m", "vf.scenario_runner", path], cwd=VERIF, env=env, capture_output=True, text=True, timeout=600)
    finally:
        os.unlink(path)
    for line in p.stdout.splitlines():
        if line.startswith("SCENARIO-RESULT "):
            return json.loads(line[len("SCENARIO-RESULT ") :])
    raise RuntimeError("scenario runner failed: " + (p.stderr or p.stdout)[-800:])


def run_case(case) -> Result:
    res = Result()
    seen = {}
    execs = 0
    for order, hs in zip(case["orders"], case["hashseeds"]):
        if not order:
            continue
        out = _run_sub({"scenarios": case["scenarios"], "order": order, "full": False}, hs)
        for idx, runs in out.items():
            for r in runs:
                execs += 1
                seen.setdefault(idx, []).append((hs, r["md5"]))
    for idx, runs in seen.items():
        if len({m for _, m in runs}) > 1:
            # find out what differs
            sc = case["scenarios"][int(idx)]
            a = _run_sub({"scenarios": [sc], "order": [0, 0], "full": True}, runs[0][0])
            same_proc = len({r["md5"] for r in a["0"]}) > 1
            field = "?"
            for hs2, m2 in runs:
                if m2 != runs[0][1]:
                    b = _run_sub({"scenarios": [sc], "order": [0], "full": True}, hs2)
                    da, db = json.loads(a["0"][0]["dump"]), json.loads(b["0"][0]["dump"])
                    field = next((k for k in sorted(set(da) | set(db)) if da.get(k) != db.get(k)), "only-in-batch-context")
                    break
            res.violate(
                "dump-differs-between-executions",
                scenario=int(idx),
                differs_within_one_process=same_proc,
                first_differing_part=field,
                hashseeds=sorted({h for h, _ in runs}),
                text=f"{bnet_text(sc['net'])} cfg={sc['config']} | {ops.fmt_steps(sc['steps'])}",
            )
    res.count("scenario_executions", execs)
    nt = 0
    for sc in case["scenarios"]:
        if any(s["op"] in ("control", "block", "block_plain", "build", "cands", "seeds", "sets", "allseeds", "expseeds", "attr") for s in sc["steps"]):
            nt += 1
    res.nontrivial = nt >= 1
    res.label(f"nontrivial_scenarios={nt}")
    if any(sc["config"].get("debug") for sc in case["scenarios"]):
        res.label("debug-scenario")
    return res
