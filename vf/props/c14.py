"""C14 - cached attractor data is never stale."""

from __future__ import annotations

from hypothesis import strategies as st

from .. import gen, ops, sdcheck
from ..bb import BBError, Nonterminating, bnet_text, net_of
from ..runner import Result

ID = "C14"
LEVEL = "exploration"
BUDGET = {"quick": {"cases": 7000}, "thorough": {"cases": 120000, "soft_deadline": 1500}}
RULE = (
    "case = (network n<=6 [7] weighted to motif-avoidant / multi-attractor cores and inputs, history of 2-7 calls interleaving "
    "attractor queries (candidates/seeds/sets, compute=True, also on unexpanded nodes) with every operation that gives a node "
    "successors: node_successors, bfs/dfs/min/attr/target, block with and without source shortcuts, scc attachment, "
    "skip_to_minimal, skip_remaining, minimal-space skip nodes, plus reclaim and pickle); oracle after EVERY step, reading "
    "node data without recomputation: seeds/sets/candidates of every node are correct w.r.t. the node's current successors "
    "(brute-force attractors; exact for ordinary nodes, sound and duplicate-free for skip nodes); non-trivial = an attractor "
    "query on an unexpanded node is later followed by an operation that expands that node"
)
OPS = (
    ops.PLAIN_OPS
    + ops.SKIP_OPS
    + ops.STRUCT_OPS
    + ops.AUX_OPS
    + ("cands", "seeds", "sets", "seeds", "sets", "cands", "allseeds", "block", "skip", "succ", "expsets", "expcands", "expseeds")
)


@st.composite
def _case(draw, max_n):
    nj = draw(gen.networks(max_n=max_n, core_weight=3, kinds=("maa", "multi", "deep", "diamond")))
    n = len(nj["names"])
    steps = draw(ops.steps(OPS, n, 2, 7))
    if draw(st.integers(0, 2)) == 0:
        # template "query a stub, then give it successors by one of the six paths": expand the root (or a level),
        # query an unexpanded node, then an operation that expands / skips / attaches below it
        pre = draw(st.sampled_from(([{"op": "succ", "node": 0}], [{"op": "bfs", "node": None, "level": 1, "size": None}], [])))
        q = draw(ops.steps(("cands", "seeds", "sets", "allseeds"), n, 1, 2))
        giver = draw(
            ops.steps(("minskip", "minskip", "skip", "skiprem", "scc", "block", "block_plain", "bfs", "dfs", "min", "attr", "succ", "build"), n, 1, 2)
        )
        steps = pre + q + giver + steps[:2]
    return {"net": nj, "steps": steps}


def strategy(tier):
    return _case(6 if tier == "quick" else 7)


def describe(case):
    return f"{bnet_text(case['net'])} | {ops.fmt_steps(case['steps'])}"


def run_case(case) -> Result:
    res = Result()
    net = net_of(case)
    queried_stub = set()  # spaces of nodes that were queried while unexpanded
    nontriv = False
    try:
        h = ops.History(net)
        for k, s in enumerate(case["steps"]):
            sd = h.sd
            before_unexp = {i for i in sd.node_ids() if not sd.node_data(i)["expanded"]}
            if s["op"] in ("cands", "seeds", "sets"):
                i = h.node(s["node"])
                if i in before_unexp:
                    queried_stub.add(sdcheck.node_spaces(sd, net)[i])
            elif s["op"] == "allseeds":
                sp = sdcheck.node_spaces(sd, net)
                queried_stub.update(sp[i] for i in before_unexp)
            out = h.apply(s)
            if out.kind != "ok":
                res.violate(f"unexpected-RuntimeError:{s['op']}", step=k, error=str(out.exc))
                return res
            sd = h.sd
            sp = sdcheck.node_spaces(sd, net)
            for i in sd.node_ids():
                if sd.node_data(i)["expanded"] and sp[i] in queried_stub and s["op"] not in ("cands", "seeds", "sets", "allseeds", "reclaim", "pickle"):
                    nontriv = True
            if not sdcheck.check_cache(sd, net, res, f"after:{s['op']}"):
                for v in res.violations:
                    v[1].setdefault("step", k)
                break
    except Nonterminating:
        res.excluded = "nonterminating"
        return res
    except BBError as e:
        res.violate(f"exception:{e.kind}@{e.site}", error=str(e), tb=e.tb)
        return res
    res.nontrivial = nontriv
    res.label(f"n={net.n}", *("op:" + s["op"] for s in case["steps"]))
    if nontriv:
        res.label("stub-queried-then-expanded")
    return res
