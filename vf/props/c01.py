"""C01 - reported attractor seeds correspond one-to-one to the network's attractors."""

from __future__ import annotations

from hypothesis import strategies as st

from .. import gen, ops, sdcheck
from ..adapter import to_bn
from ..bb import BBError, Nonterminating, bnet_text, call, full_state, net_of
from ..runner import Result

ID = "C01"
LEVEL = "exploration"
BUDGET = {"quick": {"cases": 7000}, "thorough": {"cases": 120000, "soft_deadline": 1500}}
RULE = (
    "case = (network n<=6 [7], >=40% built from mined cores: motif-avoidant attractors, several attractors in one minimal trap "
    "space, composed by union/gating/cascade; complete strategy build|block|bfs|dfs|scc|attr with default settings); oracle = "
    "terminal SCCs of the explicit asynchronous graph (cross-checked against AEON on every network) - every seed is a full state "
    "in an attractor inside its node and in no successor, every attractor hit exactly once; non-trivial = >=2 attractors, a "
    "complex attractor, a motif-avoidant attractor, or a node with >=2 seeds"
)
STRATS = ("build", "block", "bfs", "dfs", "scc", "attr")


@st.composite
def _case(draw, max_n):
    nj = draw(gen.networks(max_n=max_n, core_weight=5, kinds=None))
    return {"net": nj, "strategy": draw(st.sampled_from(STRATS)), "via_expanded": draw(st.booleans())}


def strategy(tier):
    return _case(6 if tier == "quick" else 7)


def describe(case):
    return f"{bnet_text(case['net'])} | {case['strategy']} via_expanded_attractor_seeds={case['via_expanded']}"


def _aeon_attractors(net):
    from biodivine_aeon import AsynchronousGraph, Attractors

    bn = to_bn(net, via="bnet")
    g = AsynchronousGraph(bn)
    out = []
    for a in Attractors.attractors(g):
        sts = set()
        for v in a.vertices().items():
            d = {bn.get_variable_name(k): int(b) for k, b in v.to_dict().items()}
            sts.add(full_state(net, d))
        out.append(frozenset(sts))
    return out


def _incomplete(net, sd, spaces, reporters):
    """does one of the reporting nodes lack successors it has in the reference diagram?"""
    from ..oracle import RefSD

    ref = RefSD(net)
    for i in reporters:
        sp = spaces[i]
        if sp in ref.children and set(ref.children[sp]) - {spaces[j] for j in sd.dag.successors(i)}:
            return True
    return False


def _trig_scc_maa_dup(case, detail):
    """F10: source-SCC expansion, the duplicated attractor is motif-avoidant and one of the nodes reporting it was
    marked expanded by sub-diagram attachment with only part of its successors"""
    return case["strategy"] == "scc" and detail.get("maa") is True and detail.get("reporter_with_incomplete_successors") is True


TRIGGERS = {"scc_maa_under_partially_attached_node": _trig_scc_maa_dup}


def run_case(case) -> Result:
    res = Result()
    net = net_of(case)
    att = net.attractors()
    if not any(t is None for t in net.tables):
        if set(_aeon_attractors(net)) != set(att):
            raise AssertionError("oracle self-check failed: attractors differ from AEON")
        res.count("aeon_crosschecks")
    strat = case["strategy"]
    try:
        h = ops.History(net)
        step = {
            "build": {"op": "build"},
            "block": {"op": "block", "maa": True, "size": None, "optsrc": True, "exact": False},
            "bfs": {"op": "bfs", "node": None, "level": None, "size": None},
            "dfs": {"op": "dfs", "node": None, "stack": None, "size": None},
            "scc": {"op": "scc", "maa": True},
            "attr": {"op": "attr", "size": None},
        }[strat]
        out = h.apply(step)
        if out.kind != "ok":
            res.violate(f"unexpected-RuntimeError:{strat}", error=str(out.exc))
            return res
        if strat != "build" and out.ret is not True:
            res.violate(f"{strat}:did-not-report-completion", ret=str(out.ret))
            return res
        sd = h.sd
        if case["via_expanded"]:
            seeds = call(sd.expanded_attractor_seeds)
            for i in sd.expanded_ids():
                seeds.setdefault(i, [])
        else:
            seeds = {i: call(sd.node_attractor_seeds, i, compute=True) for i in list(sd.expanded_ids())}
    except Nonterminating:
        res.excluded = "nonterminating"
        return res
    except RuntimeError as e:
        res.violate(f"unexpected-RuntimeError:seeds:{strat}", error=str(e))
        return res
    except BBError as e:
        res.violate(f"exception:{e.kind}@{e.site}", error=str(e), tb=e.tb)
        return res
    spaces = sdcheck.node_spaces(sd, net)
    hits = {a: 0 for a in att}
    for i, ss in seeds.items():
        sdcheck.check_seeds_exact(sd, net, i, ss, res, f"{strat}:node", spaces)
        for s in ss:
            st_ = full_state(net, s)
            a = net.attractor_of_state(st_) if st_ is not None else None
            if a is not None:
                hits[a] += 1
    for a, k in hits.items():
        if k == 0:
            res.violate(f"{strat}:diagram:attractor-not-reported", attractor=sorted(net.state_tuple(s) for s in a)[:4], maa=net.is_maa(a))
        elif k > 1:
            reporters = [
                i for i, ss in seeds.items() if any(full_state(net, s) in a for s in ss if full_state(net, s) is not None)
            ]
            res.violate(
                f"{strat}:diagram:attractor-reported-twice-or-more",
                times=k,
                attractor=sorted(net.state_tuple(s) for s in a)[:4],
                maa=net.is_maa(a),
                reporter_with_incomplete_successors=_incomplete(net, sd, spaces, reporters),
            )
    labs = gen.classify_net(net)
    res.label(*labs, f"strategy={strat}")
    res.nontrivial = (
        len(att) >= 2 or any(len(a) > 1 for a in att) or "maa" in labs or any(len(ss) >= 2 for ss in seeds.values())
    )
    if any(len(ss) >= 2 for ss in seeds.values()):
        res.label("node>=2seeds")
    return res
