"""
Driver shared by all property checks: sharded Hypothesis scan (collect, don't stop),
bucketed violations, structural shrinking, replay files, known findings, evidence.

Exit codes: 0 held / 1 violation (prints VIOLATION lines) / 2 harness error or inconclusive.
"""

from __future__ import annotations

import hashlib
import importlib
import json
import multiprocessing as mp
import os
import sys
import time
import traceback
import zlib

VERIF = os.path.dirname(os.path.dirname(os.path.abspath(__file__)))
NPROC = int(os.environ.get("VF_NPROC", "16"))
# redirected only by tools/seed_run.py (sensitivity runs against scratch worktrees)
OUT_ROOT = os.environ.get("VF_OUT_DIR", os.path.join(VERIF, "out"))
EVID_ROOT = os.environ.get("VF_EVIDENCE_DIR", os.path.join(VERIF, "evidence"))


# ------------------------------------------------------------------ results
class Result:
    """outcome of run_case"""

    __slots__ = ("violations", "nontrivial", "labels", "excluded", "counters", "sample_note")

    def __init__(self):
        self.violations = []  # list of (bucket:str, detail:dict)
        self.nontrivial = False
        self.labels = []
        self.excluded = None  # reason string if the case was dropped
        self.counters = {}
        self.sample_note = None

    def violate(self, bucket, **detail):
        self.violations.append((bucket, detail))

    def count(self, key, k=1):
        self.counters[key] = self.counters.get(key, 0) + k

    def label(self, *ls):
        self.labels.extend(ls)


def case_hash(case):
    return hashlib.md5(json.dumps(case, sort_keys=True, default=str).encode()).hexdigest()[:16]


def derive_seed(seed, prop_id, shard):
    return (int(seed) * 1_000_003 + zlib.crc32(prop_id.encode()) * 31 + shard * 7919 + 17) % (2**62)


# ------------------------------------------------------------------ known findings
def load_known():
    """[{status, property, bucket, trigger, text}]"""
    path = os.path.join(VERIF, "known_findings.txt")
    out = []
    if not os.path.exists(path):
        return out
    for line in open(path):
        line = line.strip()
        if not line or line.startswith("#"):
            continue
        status, _, rest = line.partition(":")
        status = status.strip()
        rest = rest.strip()
        ent = {"status": status, "raw": line, "text": rest}
        if status == "known":
            head, _, text = rest.partition("::")
            for tok in head.split():
                if "=" in tok:
                    k, v = tok.split("=", 1)
                    ent[k] = v
            ent["text"] = text.strip()
            out.append(ent)
        elif status == "fixed":
            for tok in rest.split():
                if tok.startswith("property="):
                    ent["property"] = tok.split("=", 1)[1]
            out.append(ent)
    return out


def match_known(prop, known, bucket, case, detail):
    for ent in known:
        if ent["status"] != "known" or ent.get("property") != prop.ID:
            continue
        if ent.get("bucket") != bucket:
            continue
        trig = ent.get("trigger")
        fn = getattr(prop, "TRIGGERS", {}).get(trig)
        if fn is None:
            continue
        try:
            if fn(case, detail):
                return ent
        except Exception:
            continue
    return None


# ------------------------------------------------------------------ worker
def _safe_run(prop, case):
    """run_case wrapped: harness errors never masquerade as violations"""
    try:
        return prop.run_case(case), None
    except BaseException as e:  # noqa
        if isinstance(e, KeyboardInterrupt):
            raise
        return None, "".join(traceback.format_exception(type(e), e, e.__traceback__))[-3000:]


def _worker(args):
    prop_id, tier, seed, shard, nshards, budget, soft_deadline = args
    os.environ.setdefault("PYTHONHASHSEED", "0")
    t0 = time.time()
    from hypothesis import HealthCheck, Phase, given, settings
    from hypothesis import seed as hseed

    prop = importlib.import_module(f"vf.props.{prop_id.lower()}")
    stats = {
        "evaluations": 0,
        "nontrivial_hashes": set(),
        "labels": {},
        "excluded": {},
        "counters": {},
        "violations": [],  # (bucket, detail, case)
        "harness_errors": [],
        "samples": [],
        "trivial_sample": None,
        "skipped_budget": 0,
        "generated": 0,
        "excluded_samples": [],
    }
    if budget <= 0:
        return _pack(stats)
    strat = prop.strategy(tier)
    seen_buckets = {}

    def process(case):
        stats["generated"] += 1
        if time.time() - t0 > soft_deadline:
            stats["skipped_budget"] += 1
            return
        res, err = _safe_run(prop, case)
        if err is not None:
            if len(stats["harness_errors"]) < 5:
                stats["harness_errors"].append({"error": err, "case": case})
            return
        if res.excluded:
            stats["excluded"][res.excluded] = stats["excluded"].get(res.excluded, 0) + 1
            if res.excluded == "nonterminating" and len(stats["excluded_samples"]) < 2:
                # keep the case: a call that exceeded the protective work bound is C13's business
                stats["excluded_samples"].append(case)
            for k, v in res.counters.items():
                stats["counters"][k] = stats["counters"].get(k, 0) + v
            return
        stats["evaluations"] += 1
        for lb in res.labels:
            stats["labels"][lb] = stats["labels"].get(lb, 0) + 1
        for k, v in res.counters.items():
            stats["counters"][k] = stats["counters"].get(k, 0) + v
        if res.nontrivial:
            h = case_hash(case)
            if h not in stats["nontrivial_hashes"]:
                stats["nontrivial_hashes"].add(h)
                if len(stats["samples"]) < 3:
                    stats["samples"].append(case)
        elif stats["trivial_sample"] is None:
            stats["trivial_sample"] = case
        for bucket, detail in res.violations:
            k = seen_buckets.get(bucket, 0)
            seen_buckets[bucket] = k + 1
            if k < 6:  # keep a few per bucket (smallest is chosen later)
                stats["violations"].append((bucket, detail, case))

    @hseed(derive_seed(seed, prop_id, shard))
    @settings(
        max_examples=budget,
        phases=[Phase.generate],
        database=None,
        deadline=None,
        derandomize=False,
        report_multiple_bugs=False,
        suppress_health_check=list(HealthCheck),
    )
    @given(strat)
    def scan(case):
        process(case)

    try:
        scan()
    except BaseException as e:  # noqa
        stats["harness_errors"].append(
            {"error": "".join(traceback.format_exception(type(e), e, e.__traceback__))[-3000:], "case": None}
        )
    stats["bucket_counts"] = seen_buckets
    return _pack(stats)


def _pack(stats):
    stats["nontrivial_hashes"] = sorted(stats["nontrivial_hashes"])
    return stats


# ------------------------------------------------------------------ shrinking
def _is_space_key(k):
    return k.endswith("_sp")


def _drop_var_obj(obj, i):
    """remove variable index i from every '*_sp', '*_sps', '*_vars' field (recursively)"""
    if isinstance(obj, dict):
        out = {}
        for k, v in obj.items():
            if k == "net":
                out[k] = v
            elif k.endswith("_sp") and isinstance(v, list):
                out[k] = v[:i] + v[i + 1 :]
            elif k.endswith("_sps") and isinstance(v, list):
                out[k] = [s[:i] + s[i + 1 :] for s in v]
            elif k.endswith("_vars") and isinstance(v, list):
                out[k] = [x - 1 if x > i else x for x in v if x != i]
            else:
                out[k] = _drop_var_obj(v, i)
        return out
    if isinstance(obj, list):
        return [_drop_var_obj(x, i) for x in obj]
    return obj


def _net_drop_var(nj, i, const):
    """substitute variable i by a constant in every table and remove it"""
    n = len(nj["names"])
    regs, tabs = [], []
    for j in range(n):
        if j == i:
            continue
        r = nj["regs"][j]
        t = nj["tables"][j]
        if t is None or i not in r:
            regs.append([x - 1 if x > i else x for x in r])
            tabs.append(t)
            continue
        p = r.index(i)
        k = len(r)
        nt = []
        for idx in range(1 << k):
            if ((idx >> (k - 1 - p)) & 1) == const:
                nt.append(t[idx])
        regs.append([x - 1 if x > i else x for x in r if x != i])
        tabs.append(nt)
    names = [f"v{k}" for k in range(n - 1)] if all(nm == f"v{k}" for k, nm in enumerate(nj["names"])) else [
        nm for k, nm in enumerate(nj["names"]) if k != i
    ]
    return {"names": names, "regs": regs, "tables": tabs}


def _net_drop_reg(nj, j, p, const):
    """fix regulator position p of variable j to a constant"""
    r = nj["regs"][j]
    t = nj["tables"][j]
    k = len(r)
    nt = [t[idx] for idx in range(1 << k) if ((idx >> (k - 1 - p)) & 1) == const]
    regs = [list(x) for x in nj["regs"]]
    tabs = list(nj["tables"])
    regs[j] = r[:p] + r[p + 1 :]
    tabs[j] = nt
    return {"names": nj["names"], "regs": regs, "tables": tabs}


def generic_simplifications(case):
    """yield simpler variants of a case (largest simplifications first)"""
    # 1. shorter histories
    for key in ("steps", "pre", "post", "queries"):
        if isinstance(case.get(key), list) and case[key]:
            L = case[key]
            if len(L) > 1:
                yield {**case, key: L[: len(L) // 2]}
                yield {**case, key: L[len(L) // 2 :]}
            for k in range(len(L)):
                yield {**case, key: L[:k] + L[k + 1 :]}
    # 2. smaller networks
    for nkey in ("net", "net2"):
        nj = case.get(nkey)
        if not isinstance(nj, dict) or "tables" not in nj:
            continue
        n = len(nj["names"])
        if n > 1:
            for i in range(n - 1, -1, -1):
                for c in (0, 1):
                    c2 = _drop_var_obj(case, i) if nkey == "net" else dict(case)
                    c2[nkey] = _net_drop_var(nj, i, c)
                    yield c2
        for j in range(n):
            t = nj["tables"][j]
            if t is None:
                continue
            r = nj["regs"][j]
            for p in range(len(r)):
                for c in (0, 1):
                    yield {**case, nkey: _net_drop_reg(nj, j, p, c)}
        for j in range(n):
            t = nj["tables"][j]
            if t is None:
                continue
            for idx in range(len(t)):
                if t[idx] == 1:
                    nt = list(t)
                    nt[idx] = 0
                    tabs = list(nj["tables"])
                    tabs[j] = nt
                    yield {**case, nkey: {**nj, "tables": tabs}}
    # 3. simpler spaces
    for k, v in case.items():
        if k.endswith("_sp") and isinstance(v, list):
            for i in range(len(v)):
                if v[i] is not None:
                    yield {**case, k: v[:i] + [None] + v[i + 1 :]}
        if k.endswith("_sps") and isinstance(v, list):
            for i in range(len(v)):
                yield {**case, k: v[:i] + v[i + 1 :]}


def shrink(prop, case, bucket, time_budget):
    """greedy structural shrinking: keep a simplification if the same bucket still fails"""
    t0 = time.time()
    simp = getattr(prop, "simplifications", None)
    tried = 0

    reset = getattr(prop, "reset", None)

    def fails(c):
        if reset is not None:
            reset()
        res, err = _safe_run(prop, c)
        if err is not None or res is None or res.excluded:
            return False
        return any(b == bucket for b, _ in res.violations)

    improved = True
    while improved and time.time() - t0 < time_budget:
        improved = False
        gens = []
        if simp is not None:
            gens.append(simp(case))
        gens.append(generic_simplifications(case))
        for g in gens:
            for cand in g:
                if time.time() - t0 > time_budget:
                    break
                tried += 1
                try:
                    ok = fails(cand)
                except Exception:
                    ok = False
                if ok:
                    case = cand
                    improved = True
                    break
            if improved:
                break
    return case, tried


def case_size(case):
    return len(json.dumps(case, default=str))


# ------------------------------------------------------------------ main entry
def budgets(prop, tier):
    b = prop.BUDGET[tier]
    if isinstance(b, dict):
        return b
    return {"cases": b}


def run_check(prop_id, tier, seed, replay=None):
    t0 = time.time()
    sys.path.insert(0, VERIF)
    import biobalm  # noqa

    repo = os.path.realpath(os.environ.get("VF_REPO", "/repo"))
    if not os.path.realpath(biobalm.__file__).startswith(repo + "/"):
        print(f"HARNESS-ERROR: biobalm imported from {biobalm.__file__}, expected under {repo}")
        return 2
    prop = importlib.import_module(f"vf.props.{prop_id.lower()}")
    known = load_known()

    if replay is not None:
        return run_replay(prop, replay)

    bud = budgets(prop, tier)
    total = int(bud["cases"])
    soft_deadline = float(bud.get("soft_deadline", 240 if tier == "quick" else 1500))
    shrink_budget = float(bud.get("shrink", 40 if tier == "quick" else 240))

    all_violations = []  # (bucket, detail, case, origin)
    harness_errors = []
    agg = {
        "evaluations": 0,
        "nontrivial": set(),
        "labels": {},
        "excluded": {},
        "counters": {},
        "samples": [],
        "trivial_sample": None,
        "skipped_budget": 0,
        "generated": 0,
        "bucket_counts": {},
        "excluded_samples": [],
    }

    def absorb(res, case, origin):
        agg["evaluations"] += 1
        for lb in res.labels:
            agg["labels"][lb] = agg["labels"].get(lb, 0) + 1
        for k, v in res.counters.items():
            agg["counters"][k] = agg["counters"].get(k, 0) + v
        if res.nontrivial:
            agg["nontrivial"].add(case_hash(case))
        for bucket, detail in res.violations:
            agg["bucket_counts"][bucket] = agg["bucket_counts"].get(bucket, 0) + 1
            all_violations.append((bucket, detail, case, origin))

    # --- 1. committed replays (seconds-long tier) --------------------------------
    rdir = os.path.join(VERIF, "replays", prop.ID)
    n_replays = 0
    if os.path.isdir(rdir):
        for fn in sorted(os.listdir(rdir)):
            if not fn.endswith(".json"):
                continue
            with open(os.path.join(rdir, fn)) as f:
                j = json.load(f)
            case = j["case"] if "case" in j else j
            res, err = _safe_run(prop, case)
            n_replays += 1
            if err is not None:
                harness_errors.append({"error": err, "case": case, "where": f"replay {fn}"})
                continue
            if res.excluded:
                agg["excluded"][res.excluded] = agg["excluded"].get(res.excluded, 0) + 1
                continue
            absorb(res, case, f"replay:{fn}")

    # --- 2. exhaustive sub-domain ------------------------------------------------
    exhaustive_done = False
    n_exh = 0
    if hasattr(prop, "exhaustive"):
        cases = list(prop.exhaustive(tier))
        if cases:
            with mp.get_context("fork").Pool(NPROC) as pool:
                chunks = [cases[k::NPROC] for k in range(NPROC)]
                outs = pool.map(_exh_worker, [(prop.ID, ch) for ch in chunks])
            for out in outs:
                for (case, packed, err) in out:
                    n_exh += 1
                    if err is not None:
                        harness_errors.append({"error": err, "case": case, "where": "exhaustive"})
                        continue
                    res = _unpack_result(packed)
                    if res.excluded:
                        agg["excluded"][res.excluded] = agg["excluded"].get(res.excluded, 0) + 1
                        continue
                    absorb(res, case, "exhaustive")
            exhaustive_done = True

    # --- 3. sharded Hypothesis scan ---------------------------------------------
    per = max(1, total // NPROC)
    jobs = [(prop.ID, tier, seed, sh, NPROC, per, soft_deadline) for sh in range(NPROC)]
    hard = soft_deadline * 2 + 120
    with mp.get_context("fork").Pool(NPROC) as pool:
        ar = pool.map_async(_worker, jobs)
        try:
            outs = ar.get(timeout=hard)
        except mp.TimeoutError:
            pool.terminate()
            print(f"INCONCLUSIVE: property={prop.ID} workers exceeded the hard wall-clock limit ({hard:.0f}s)")
            return 2
    for st_ in outs:
        agg["evaluations"] += st_["evaluations"]
        agg["generated"] += st_["generated"]
        agg["skipped_budget"] += st_["skipped_budget"]
        agg["nontrivial"].update(st_["nontrivial_hashes"])
        for k, v in st_["labels"].items():
            agg["labels"][k] = agg["labels"].get(k, 0) + v
        for k, v in st_["excluded"].items():
            agg["excluded"][k] = agg["excluded"].get(k, 0) + v
        for k, v in st_["counters"].items():
            agg["counters"][k] = agg["counters"].get(k, 0) + v
        for k, v in st_.get("bucket_counts", {}).items():
            agg["bucket_counts"][k] = agg["bucket_counts"].get(k, 0) + v
        for s in st_.get("excluded_samples", []):
            if len(agg["excluded_samples"]) < 4:
                agg["excluded_samples"].append(s)
        for s in st_["samples"]:
            if len(agg["samples"]) < 4:
                agg["samples"].append(s)
        if agg["trivial_sample"] is None and st_["trivial_sample"] is not None:
            agg["trivial_sample"] = st_["trivial_sample"]
        for bucket, detail, case in st_["violations"]:
            all_violations.append((bucket, detail, case, "scan"))
        harness_errors.extend(st_["harness_errors"])

    # --- 4. triage: known findings vs new violations ----------------------------
    known_hits = {}
    new_by_bucket = {}
    for bucket, detail, case, origin in all_violations:
        ent = match_known(prop, known, bucket, case, detail)
        if ent is not None:
            known_hits[ent["raw"]] = known_hits.get(ent["raw"], 0) + 1
            continue
        cur = new_by_bucket.get(bucket)
        if cur is None or case_size(case) < case_size(cur[1]):
            new_by_bucket[bucket] = (detail, case, origin)

    exit_code = 0
    outdir = os.path.join(OUT_ROOT, prop.ID)
    if os.path.isdir(outdir):
        for fn in os.listdir(outdir):
            if fn.startswith("violation-"):
                os.remove(os.path.join(outdir, fn))
    violation_lines = []
    if new_by_bucket:
        os.makedirs(outdir, exist_ok=True)
        per_bucket = max(5.0, shrink_budget / max(1, len(new_by_bucket)))
        for bucket, (detail, case, origin) in sorted(new_by_bucket.items()):
            small, tried = shrink(prop, case, bucket, per_bucket)
            res, err = _safe_run(prop, small)
            det = detail
            if res is not None:
                for b, d in res.violations:
                    if b == bucket:
                        det = d
                        break
            h = hashlib.md5((bucket + json.dumps(small, sort_keys=True, default=str)).encode()).hexdigest()[:10]
            path = os.path.join(outdir, f"violation-{h}.json")
            with open(path, "w") as f:
                json.dump(
                    {
                        "property": prop.ID,
                        "bucket": bucket,
                        "detail": _jsonable(det),
                        "case": small,
                        "original_case": case,
                        "origin": origin,
                        "shrink_candidates_tried": tried,
                        "seed": seed,
                        "tier": tier,
                        "text": getattr(prop, "describe", lambda c: None)(small),
                    },
                    f,
                    indent=1,
                    default=str,
                )
            violation_lines.append(f"VIOLATION property={prop.ID} replay={path}")
            print(f"  bucket={bucket} count={agg['bucket_counts'].get(bucket)} detail={json.dumps(_jsonable(det), default=str)[:600]}")
        exit_code = 1

    for ent in known:
        if ent["status"] == "known" and ent.get("property") == prop.ID:
            print(
                f"KNOWN-FINDING: property={prop.ID} {ent['text']} [bucket={ent.get('bucket')} trigger={ent.get('trigger')} hits_this_run={known_hits.get(ent['raw'], 0)}]"
            )

    if harness_errors:
        print(f"HARNESS-ERROR: property={prop.ID} {len(harness_errors)} harness error(s); first:")
        print(harness_errors[0]["error"])
        print("case:", json.dumps(harness_errors[0].get("case"), default=str)[:1500])
        if exit_code == 0:
            exit_code = 2

    # --- 5. evidence --------------------------------------------------------------
    samples = agg["samples"][:4]
    if agg["trivial_sample"] is not None and len(samples) < 5:
        samples.append(agg["trivial_sample"])
    describe = getattr(prop, "describe", None)
    if describe is not None:
        samples = [{"case": s, "text": describe(s)} for s in samples]
    wall = time.time() - t0
    ev = {
        "property_id": prop.ID,
        "tier": tier,
        "seed": int(seed),
        "level": getattr(prop, "LEVEL", "exploration"),
        "coverage": {
            "evaluations": agg["evaluations"],
            "distinct_nontrivial": len(agg["nontrivial"]),
            "rule": prop.RULE,
            "samples": samples,
            "exhaustive": bool(exhaustive_done and getattr(prop, "EXHAUSTIVE_IS_WHOLE_DOMAIN", False)),
            "exhaustive_subdomain": (getattr(prop, "EXHAUSTIVE_NOTE", None) if exhaustive_done else None),
            "exhaustive_cases": n_exh,
            "replays_run": n_replays,
            "generated": agg["generated"],
            "skipped_after_soft_deadline": agg["skipped_budget"],
            "class_histogram": dict(sorted(agg["labels"].items())),
            "excluded": agg["excluded"],
            "excluded_nonterminating_samples": agg["excluded_samples"],
            "counters": dict(sorted(agg["counters"].items())),
            "violation_buckets": agg["bucket_counts"],
            "known_finding_hits": known_hits,
            "shards": NPROC,
        },
        "assumptions": getattr(prop, "ASSUMPTIONS", [])
        + [
            "trusted base: CPython 3.12, Hypothesis 6.168 (generation only), the brute-force oracle in vf/oracle.py",
            "absence of violations is shown only for the generated/enumerated cases",
        ],
        "wall_s": round(wall, 2),
        "violations": len(new_by_bucket),
    }
    os.makedirs(EVID_ROOT, exist_ok=True)
    with open(os.path.join(EVID_ROOT, f"{prop.ID}.json"), "w") as f:
        json.dump(ev, f, indent=1, default=str)

    for line in violation_lines:
        print(line)
    nt = len(agg["nontrivial"])
    print(
        f"{prop.ID} tier={tier} seed={seed}: evaluations={agg['evaluations']} nontrivial={nt} "
        f"excluded={agg['excluded']} new_violation_buckets={len(new_by_bucket)} wall={wall:.1f}s exit={exit_code}"
    )
    if exit_code == 0 and (agg["evaluations"] < 1 or nt < 2):
        print(f"HARNESS-ERROR: property={prop.ID} vacuous run (evaluations={agg['evaluations']}, nontrivial={nt})")
        return 2
    return exit_code


def _jsonable(x):
    try:
        json.dumps(x)
        return x
    except TypeError:
        return json.loads(json.dumps(x, default=str))


def _pack_result(res):
    return {
        "violations": [(b, _jsonable(d)) for b, d in res.violations],
        "nontrivial": res.nontrivial,
        "labels": res.labels,
        "excluded": res.excluded,
        "counters": res.counters,
    }


def _unpack_result(p):
    r = Result()
    r.violations = [tuple(x) for x in p["violations"]]
    r.nontrivial = p["nontrivial"]
    r.labels = p["labels"]
    r.excluded = p["excluded"]
    r.counters = p["counters"]
    return r


def _exh_worker(args):
    prop_id, cases = args
    prop = importlib.import_module(f"vf.props.{prop_id.lower()}")
    out = []
    for case in cases:
        res, err = _safe_run(prop, case)
        out.append((case, None if res is None else _pack_result(res), err))
    return out


def run_replay(prop, path):
    with open(path) as f:
        j = json.load(f)
    case = j["case"] if isinstance(j, dict) and "case" in j else j
    res, err = _safe_run(prop, case)
    if err is not None:
        print("HARNESS-ERROR while replaying:\n" + err)
        return 2
    if res.excluded:
        print(f"replay excluded: {res.excluded}")
        return 2
    known = load_known()
    new = []
    for bucket, detail in res.violations:
        ent = match_known(prop, known, bucket, case, detail)
        if ent is not None:
            print(f"KNOWN-FINDING: property={prop.ID} {ent['text']}")
        else:
            new.append((bucket, detail))
    for bucket, detail in new:
        print(f"  bucket={bucket} detail={json.dumps(_jsonable(detail), default=str)[:800]}")
    if new:
        print(f"VIOLATION property={prop.ID} replay={os.path.abspath(path)}")
        return 1
    print(f"{prop.ID} replay {path}: no violation")
    return 0
