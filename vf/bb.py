"""
Helpers shared by the property modules: guarded calls into biobalm, conversions.
"""

from __future__ import annotations

import os
import traceback

from .guard import DEFAULT_LIMIT, MONITOR, WorkBoundExceeded
from .oracle import Net

REPO = os.path.realpath(os.environ.get("VF_REPO", "/repo"))


class Nonterminating(Exception):
    """a biobalm call exceeded the work bound (attributed to C13)"""

    def __init__(self, where):
        super().__init__(where)
        self.where = where


class BBError(Exception):
    """an exception escaped a biobalm call; ``site`` = innermost frame under /repo/biobalm"""

    def __init__(self, exc, site, tb):
        super().__init__(f"{type(exc).__name__}: {exc} @ {site}")
        self.exc = exc
        self.site = site
        self.tb = tb

    @property
    def kind(self):
        return type(self.exc).__name__


def exc_site(e):
    site = "?"
    for fr in traceback.extract_tb(e.__traceback__):
        if os.path.realpath(fr.filename).startswith(REPO + "/biobalm"):
            site = f"{os.path.basename(fr.filename)}:{fr.name}"
    return site


def call(fn, *a, limit=DEFAULT_LIMIT, expect=(), **kw):
    """Run a biobalm call under the work bound.

    * WorkBoundExceeded  -> Nonterminating
    * exception types listed in ``expect`` are re-raised as they are (documented errors)
    * any other Exception -> BBError (bucketed by type and raising frame)
    """
    MONITOR.install()
    MONITOR.start(limit)
    try:
        return fn(*a, **kw)
    except WorkBoundExceeded as e:
        raise Nonterminating(e.where) from None
    except expect:
        raise
    except Exception as e:  # noqa
        raise BBError(e, exc_site(e), "".join(traceback.format_exception(type(e), e, e.__traceback__))[-1500:]) from None
    finally:
        MONITOR.stop()


def net_of(case, key="net") -> Net:
    return Net.from_json(case[key])


def sp_of(lst):
    return tuple(lst)


def sd_space(net: Net, d) -> tuple:
    """biobalm BooleanSpace dict -> oracle space tuple (KeyError on unknown variable)"""
    pos = {nm: i for i, nm in enumerate(net.names)}
    sp = [None] * net.n
    for k, v in d.items():
        sp[pos[k]] = int(v)
    return tuple(sp)


def full_state(net: Net, d):
    """full-state dict -> int, or None if it does not assign exactly the network variables"""
    if set(d.keys()) != set(net.names):
        return None
    s = 0
    for i, nm in enumerate(net.names):
        v = d[nm]
        if v not in (0, 1):
            return None
        if v:
            s |= 1 << i
    return s


def fmt_space(net: Net, sp):
    return "".join("*" if v is None else str(v) for v in sp)


def bnet_text(netj):
    from .adapter import to_bnet

    return to_bnet(Net.from_json(netj)).replace("\n", " ; ")
