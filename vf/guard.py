"""
Guards around calls into biobalm:

* WorkMonitor  - counts executed loop back-edges inside code objects that live under
                 /repo/biobalm (sys.monitoring JUMP / BRANCH events) and raises
                 WorkBoundExceeded (a BaseException) into the running call when a bound
                 is exceeded.  Deterministic; independent of wall-clock and load.
* SolverFaults - makes the k-th clingo ``solve`` (or ``ground``) call made through
                 biobalm.trappist_core raise RuntimeError.
"""

from __future__ import annotations

import os
import sys
import types

REPO_PREFIX = os.path.realpath(os.environ.get("VF_REPO", "/repo")) + "/biobalm"


class WorkBoundExceeded(BaseException):
    def __init__(self, where):
        super().__init__(where)
        self.where = where


class WorkMonitor:
    def __init__(self):
        self.count = 0
        self.limit = None
        self.installed = False
        self.tripped_in = None
        self.per_code = {}
        self.profile = False

    def install(self):
        if self.installed:
            return
        mon = sys.monitoring
        self.tool = mon.PROFILER_ID
        try:
            mon.use_tool_id(self.tool, "vf-workbound")
        except ValueError:
            # already taken (e.g. by fork from an installed parent): free and retake
            mon.free_tool_id(self.tool)
            mon.use_tool_id(self.tool, "vf-workbound")
        mon.register_callback(self.tool, mon.events.JUMP, self._cb)
        self._seen = set()
        self.refresh()
        self.installed = True

    def refresh(self):
        """(re)scan loaded biobalm modules for code objects"""
        mon = sys.monitoring
        for name, mod in list(sys.modules.items()):
            if not name.startswith("biobalm"):
                continue
            if not getattr(mod, "__file__", None):
                continue
            for v in list(vars(mod).values()):
                self._walk_obj(v)

    def _walk_obj(self, v):
        if isinstance(v, types.FunctionType):
            self._walk(v.__code__)
        elif isinstance(v, type):
            for w in list(vars(v).values()):
                f = getattr(w, "__func__", w)
                if isinstance(f, types.FunctionType):
                    self._walk(f.__code__)
                elif isinstance(f, property):
                    for g in (f.fget, f.fset, f.fdel):
                        if isinstance(g, types.FunctionType):
                            self._walk(g.__code__)

    def _walk(self, code):
        if code in self._seen:
            return
        self._seen.add(code)
        if not os.path.realpath(code.co_filename).startswith(REPO_PREFIX):
            return
        sys.monitoring.set_local_events(self.tool, code, sys.monitoring.events.JUMP)
        for c in code.co_consts:
            if isinstance(c, types.CodeType):
                self._walk(c)

    def _cb(self, code, off, dest):
        if dest < off:
            self.count += 1
            if self.profile:
                k = code.co_name
                self.per_code[k] = self.per_code.get(k, 0) + 1
            lim = self.limit
            if lim is not None and self.count > lim:
                self.limit = None
                self.tripped_in = f"{os.path.basename(code.co_filename)}:{code.co_name}"
                raise WorkBoundExceeded(self.tripped_in)

    def start(self, limit):
        self.count = 0
        self.limit = limit
        self.tripped_in = None

    def stop(self):
        self.limit = None
        return self.count


MONITOR = WorkMonitor()

# default bound used by every check except C13 (which computes its own B(n, N))
DEFAULT_LIMIT = 20_000_000


def work_bound(n, diagram_size, simulation_budget=1000):
    """B(n, N) of DESIGN.md (C13), plus the work the caller explicitly asks for through
    `minimum_simulation_budget` (the simulation loop legitimately runs ~budget*n walk steps of n updates)"""
    return int(2e7 * max(1.0, 4.0 ** (n - 6)) * (1 + diagram_size / 50.0) + 40 * simulation_budget * (n + 1) ** 2)


class guarded:
    """context manager: run a biobalm call under the work bound"""

    def __init__(self, limit=DEFAULT_LIMIT):
        self.limit = limit

    def __enter__(self):
        MONITOR.install()
        MONITOR.start(self.limit)
        return MONITOR

    def __exit__(self, et, ev, tb):
        MONITOR.stop()
        return False


# ---------------------------------------------------------------- solver faults
class InjectedSolverFailure(RuntimeError):
    pass


class SolverFaults:
    """Proxy for clingo.Control inside biobalm.trappist_core.

    mode "count": only counts solve() calls.
    mode "fail":  the k-th solve() raises RuntimeError("injected solver failure").
    """

    def __init__(self):
        self.calls = 0
        self.fail_at = None
        self.fired = False
        self._orig = None

    def install(self):
        import biobalm.trappist_core as tc

        if self._orig is not None:
            return
        self._orig = tc.Control
        outer = self

        class ControlProxy:
            def __init__(self, *a, **kw):
                self._c = outer._orig(*a, **kw)

            def add(self, *a, **kw):
                return self._c.add(*a, **kw)

            def ground(self, *a, **kw):
                return self._c.ground(*a, **kw)

            def solve(self, *a, **kw):
                outer.calls += 1
                if outer.fail_at is not None and outer.calls == outer.fail_at:
                    outer.fired = True
                    raise InjectedSolverFailure("injected solver failure")
                return self._c.solve(*a, **kw)

            def __getattr__(self, name):
                return getattr(self._c, name)

        tc.Control = ControlProxy

    def uninstall(self):
        import biobalm.trappist_core as tc

        if self._orig is not None:
            tc.Control = self._orig
            self._orig = None

    def reset(self, fail_at=None):
        self.calls = 0
        self.fail_at = fail_at
        self.fired = False


FAULTS = SolverFaults()
