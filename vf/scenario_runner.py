"""
Executes scenarios (network + configuration + history) in THIS interpreter and prints one JSON line:
    {"<scenario index>": [canonical dump of every execution, in execution order], ...}
Used by C19 in fresh sub-processes with different PYTHONHASHSEED values and execution orders.

usage: python -m vf.scenario_runner <file.json>     file = {"scenarios": [...], "order": [indices, repeats allowed]}
"""

from __future__ import annotations

import contextlib
import hashlib
import io
import json
import os
import sys


def canonical(sc):
    from . import ops
    from .adapter import dump_sd
    from .bb import BBError, Nonterminating
    from .oracle import Net

    net = Net.from_json(sc["net"])
    out = {"returns": []}
    try:
        h = ops.History(net, sc.get("config") or {}, via=sc.get("via", "bnet"))
        for s in sc["steps"]:
            try:
                o = h.apply(s)
            except BBError as e:
                out["returns"].append(["bb_error", e.kind, e.site])
                break
            if o.kind != "ok":
                out["returns"].append(["runtime_error", str(o.exc)[:80]])
                continue
            r = o.ret
            if s["op"] == "control":
                r = [repr(x) for x in r]
            elif s["op"] in ("cands", "seeds"):
                r = [sorted(d.items()) for d in r]
            elif s["op"] == "expsets":
                r = sorted(r.items())
            elif s["op"] in ("allseeds", "expseeds", "expcands"):
                r = [[k, [sorted(d.items()) for d in v]] for k, v in r.items()]
            elif s["op"] == "sets":
                r = len(r)
            out["returns"].append(r)
        out["dump"] = dump_sd(h.sd)
        try:
            out["summary"] = h.sd.summary()
        except Exception as e:  # noqa
            out["summary"] = "EXC " + type(e).__name__
    except Nonterminating as e:
        out["nonterminating"] = True
    except BBError as e:
        out["construct_error"] = [e.kind, e.site]
    return json.dumps(out, sort_keys=True, default=str)


def main():
    sys.path.insert(0, os.environ.get("VF_REPO", "/repo"))
    with open(sys.argv[1]) as f:
        job = json.load(f)
    res = {}
    sink = io.StringIO()
    for idx in job["order"]:
        with contextlib.redirect_stdout(sink):
            d = canonical(job["scenarios"][idx])
        res.setdefault(str(idx), []).append({"md5": hashlib.md5(d.encode()).hexdigest(), "dump": d if job.get("full") else None})
    print("SCENARIO-RESULT " + json.dumps(res))


if __name__ == "__main__":
    main()
