"""
Explicit-state reference model for small Boolean networks (pure Python, stdlib only).

Shares no code with biobalm / clingo / AEON.  Everything is computed from explicit
truth tables by brute force, following DESIGN.md Appendix A.

Conventions
-----------
* variables are indexed 0..n-1 in the order of ``names``;
* a *state* is an int whose bit ``i`` is the value of variable ``i``;
* a *space* is a tuple over {0, 1, None} of length n;
* a *state set* is a Python int used as a bitset over the 2^n states
  (bit ``s`` set  <=>  state ``s`` is a member).
"""

from __future__ import annotations

import itertools
from functools import lru_cache


class Net:
    """regs[i]: list of regulator indices; tables[i]: tuple of 0/1 of length
    2^len(regs[i]) indexed MSB-first by the regulator values, or None for a free
    input (no update function; its value never changes)."""

    def __init__(self, names, regs, tables):
        self.names = list(names)
        self.n = len(self.names)
        self.regs = [list(r) for r in regs]
        self.tables = [None if t is None else tuple(int(x) for x in t) for t in tables]
        assert len(self.regs) == self.n and len(self.tables) == self.n
        for r, t in zip(self.regs, self.tables):
            if t is not None:
                assert len(t) == 1 << len(r), (r, t)
        n = self.n
        self.N = 1 << n
        self.FULL = (1 << self.N) - 1
        # V1[i] = bitset of states with bit i set
        self.V1 = []
        for i in range(n):
            b = 0
            for s in range(self.N):
                if (s >> i) & 1:
                    b |= 1 << s
            self.V1.append(b)
        self.V0 = [self.FULL & ~b for b in self.V1]
        # ONES[i] = bitset of states where f_i = 1 ; F[i][s] = f_i(s)
        self.F = []
        self.ONES = []
        for i in range(n):
            col = []
            ones = 0
            for s in range(self.N):
                v = self._f_raw(i, s)
                col.append(v)
                if v:
                    ones |= 1 << s
            self.F.append(col)
            self.ONES.append(ones)
        self._succ_cache = None
        self._traps = None
        self._attrs = None

    # ------------------------------------------------------------------ basics
    def _f_raw(self, i, s):
        t = self.tables[i]
        if t is None:
            return (s >> i) & 1
        idx = 0
        for r in self.regs[i]:
            idx = (idx << 1) | ((s >> r) & 1)
        return t[idx]

    def f(self, i, s):
        return self.F[i][s]

    def succ(self, s):
        out = []
        for i in range(self.n):
            if self.F[i][s] != ((s >> i) & 1):
                out.append(s ^ (1 << i))
        return out

    def state_tuple(self, s):
        return tuple((s >> i) & 1 for i in range(self.n))

    def state_from_tuple(self, t):
        s = 0
        for i, v in enumerate(t):
            if v:
                s |= 1 << i
        return s

    def state_dict(self, s):
        return {self.names[i]: (s >> i) & 1 for i in range(self.n)}

    def state_from_dict(self, d):
        """Full state dict -> int (KeyError if a variable is missing)."""
        s = 0
        for i, nm in enumerate(self.names):
            if d[nm]:
                s |= 1 << i
        return s

    # ------------------------------------------------------------------ spaces
    def sp2d(self, sp):
        return {self.names[i]: v for i, v in enumerate(sp) if v is not None}

    def d2sp(self, d):
        return tuple(d.get(nm) for nm in self.names)

    def whole(self):
        return (None,) * self.n

    def bits(self, sp):
        """bitset of the states of a space"""
        b = self.FULL
        for i, v in enumerate(sp):
            if v is None:
                continue
            b &= self.V1[i] if v else self.V0[i]
        return b

    def states_of(self, sp):
        free = [i for i in range(self.n) if sp[i] is None]
        base = 0
        for i, v in enumerate(sp):
            if v:
                base |= 1 << i
        for vals in itertools.product((0, 1), repeat=len(free)):
            s = base
            for i, v in zip(free, vals):
                if v:
                    s |= 1 << i
            yield s

    @staticmethod
    def sub(a, b):
        """a is a subspace of b"""
        for x, y in zip(a, b):
            if y is not None and x != y:
                return False
        return True

    @staticmethod
    def inter(a, b):
        r = []
        for x, y in zip(a, b):
            if x is not None and y is not None and x != y:
                return None
            r.append(x if x is not None else y)
        return tuple(r)

    def in_space(self, s, sp):
        for i, v in enumerate(sp):
            if v is not None and ((s >> i) & 1) != v:
                return False
        return True

    def all_spaces(self):
        return itertools.product((0, 1, None), repeat=self.n)

    def const_on_bits(self, i, m):
        o = m & self.ONES[i]
        if o == m:
            return 1
        if o == 0:
            return 0
        return None

    def const_on(self, i, sp):
        return self.const_on_bits(i, self.bits(sp))

    # -------------------------------------------------------------- trap spaces
    def is_trap(self, sp):
        m = self.bits(sp)
        for i, v in enumerate(sp):
            if v is None:
                continue
            o = m & self.ONES[i]
            if v == 1 and o != m:
                return False
            if v == 0 and o != 0:
                return False
        return True

    def is_trap_by_closure(self, sp):
        """independent formulation: no transition leaves the state set"""
        m = self.bits(sp)
        for s in self.states_of(sp):
            for t in self.succ(s):
                if not (m >> t) & 1:
                    return False
        return True

    def is_rev_trap(self, sp):
        """no transition enters the space from outside"""
        m = self.bits(sp)
        for s in range(self.N):
            if (m >> s) & 1:
                continue
            for t in self.succ(s):
                if (m >> t) & 1:
                    return False
        return True

    def trap_spaces(self):
        if self._traps is None:
            self._traps = [sp for sp in self.all_spaces() if self.is_trap(sp)]
        return self._traps

    def rev_trap_spaces(self):
        return [sp for sp in self.all_spaces() if self.is_rev_trap(sp)]

    def minimal(self, fam):
        fam = list(fam)
        return [t for t in fam if not any(u != t and self.sub(u, t) for u in fam)]

    def maximal(self, fam):
        fam = list(fam)
        return [t for t in fam if not any(u != t and self.sub(t, u) for u in fam)]

    def min_traps(self):
        return self.minimal(self.trap_spaces())

    # -------------------------------------------------------------- attractors
    def attractors(self):
        """terminal SCCs of the asynchronous STG, as frozensets of int states"""
        if self._attrs is not None:
            return self._attrs
        self._attrs = self.attractors_of(lambda s: self.succ(s), range(self.N))
        return self._attrs

    @staticmethod
    def attractors_of(succ, roots):
        index = {}
        low = {}
        onstack = set()
        stack = []
        comp = {}
        comps = []
        counter = 0
        for root in roots:
            if root in index:
                continue
            index[root] = low[root] = counter
            counter += 1
            stack.append(root)
            onstack.add(root)
            work = [(root, iter(succ(root)))]
            while work:
                v, it = work[-1]
                adv = False
                for w in it:
                    if w not in index:
                        index[w] = low[w] = counter
                        counter += 1
                        stack.append(w)
                        onstack.add(w)
                        work.append((w, iter(succ(w))))
                        adv = True
                        break
                    elif w in onstack:
                        if index[w] < low[v]:
                            low[v] = index[w]
                if adv:
                    continue
                work.pop()
                if work:
                    u = work[-1][0]
                    if low[v] < low[u]:
                        low[u] = low[v]
                if low[v] == index[v]:
                    c = []
                    while True:
                        w = stack.pop()
                        onstack.discard(w)
                        comp[w] = len(comps)
                        c.append(w)
                        if w == v:
                            break
                    comps.append(c)
        res = []
        for ci, c in enumerate(comps):
            if all(comp[t] == ci for s in c for t in succ(s)):
                res.append(frozenset(c))
        return res

    def attractor_of_state(self, s):
        for a in self.attractors():
            if s in a:
                return a
        return None

    def reach(self, init):
        seen = set(init)
        st = list(seen)
        while st:
            s = st.pop()
            for t in self.succ(s):
                if t not in seen:
                    seen.add(t)
                    st.append(t)
        return seen

    def attr_in_space(self, a, sp):
        return all(self.in_space(s, sp) for s in a)

    # -------------------------------------------------------------- percolation
    def perc(self, sp):
        """percolate_space: lfp; given values are never overwritten"""
        sp = list(sp)
        changed = True
        while changed:
            changed = False
            m = self.bits(sp)
            for i in range(self.n):
                if sp[i] is None:
                    c = self.const_on_bits(i, m)
                    if c is not None:
                        sp[i] = c
                        changed = True
                        m = self.bits(sp)
        return tuple(sp)

    def perc_rounds(self, sp):
        """number of synchronous propagation rounds needed (for non-triviality)"""
        sp = list(sp)
        rounds = 0
        while True:
            m = self.bits(sp)
            new = [(i, self.const_on_bits(i, m)) for i in range(self.n) if sp[i] is None]
            new = [(i, c) for i, c in new if c is not None]
            if not new:
                return rounds
            for i, c in new:
                sp[i] = c
            rounds += 1

    def perc_strict(self, given):
        """percolate_space_strict (see DESIGN Appendix A)"""
        cand = {i for i in range(self.n) if self.const_on_bits(i, self.FULL) is None}
        R = list(given)
        out = {}
        changed = True
        while changed:
            changed = False
            for i in sorted(cand):
                c = self.const_on(i, tuple(R))
                if c is not None:
                    cand.discard(i)
                    if R[i] is None or R[i] == c:
                        R[i] = c
                        out[i] = c
                        changed = True
        return out

    def perc_conflicts(self, given):
        """percolation_conflicts(strict=False)"""
        p = self.perc(given)
        m = self.bits(p)
        res = set()
        for i in range(self.n):
            if p[i] is not None:
                c = self.const_on_bits(i, m)
                if c is not None and c != p[i]:
                    res.add(i)
        return res

    # ------------------------------------------------------------------ sources
    def sources(self):
        return [
            i
            for i in range(self.n)
            if all(self.F[i][s] == ((s >> i) & 1) for s in range(self.N))
        ]

    def global_const(self, i):
        return self.const_on_bits(i, self.FULL)

    # ---------------------------------------------------------------- trappist
    def trappist(self, problem, reverse=False, ensure=None, avoid=(), opt_sources=None):
        """Reference result of biobalm.trappist_core.trappist (as a list of spaces).

        family = (rev-)trap spaces inside ``ensure`` that are not a subspace of any avoided space.
        opt_sources=None  -> all semantic sources (mirrors the default of the API).
        """
        if ensure is None:
            ensure = self.whole()
        base = self.rev_trap_spaces() if reverse else self.trap_spaces()
        fam = [
            t
            for t in base
            if self.sub(t, ensure) and not any(self.sub(t, a) for a in avoid)
        ]
        if problem == "fix":
            return [t for t in fam if None not in t]
        if problem == "min":
            return self.minimal(fam)
        if problem == "max":
            if opt_sources is None:
                opt_sources = self.sources()
            if all(v is not None for v in ensure):
                # no free place: the maximality clause is not emitted at all
                fam2 = [t for t in fam]
                return self.maximal(fam2)
            fam2 = [
                t
                for t in fam
                if t != ensure and all(t[i] is not None for i in opt_sources)
            ]
            return self.maximal(fam2)
        raise ValueError(problem)

    def reduced_stg_fixed_points(self, retained, ensure=None, avoid=()):
        """states in which no transition is enabled once every transition moving a
        retained variable away from its retained value has been removed"""
        if ensure is None:
            ensure = self.whole()
        out = []
        for s in self.states_of(ensure):
            if any(self.in_space(s, a) for a in avoid):
                continue
            ok = True
            for i in range(self.n):
                v = (s >> i) & 1
                if self.F[i][s] != v:
                    if retained[i] is not None and v == retained[i]:
                        continue  # transition away from retained value is deleted
                    ok = False
                    break
            if ok:
                out.append(s)
        return out

    # ------------------------------------------------------------------ misc
    def override(self, d):
        """network with f_v := const d[v] for the given {index: value}"""
        regs = [list(r) for r in self.regs]
        tabs = list(self.tables)
        for i, v in d.items():
            regs[i] = []
            tabs[i] = (int(v),)
        return Net(self.names, regs, tabs)

    def restrict(self, sp):
        """sub-network over the FREE variables of ``sp`` (fixed variables substituted); returns (Net, free index list)"""
        free = [i for i in range(self.n) if sp[i] is None]
        pos = {old: new for new, old in enumerate(free)}
        regs, tabs = [], []
        for i in free:
            t = self.tables[i]
            r = self.regs[i]
            if t is None:
                regs.append([])
                tabs.append(None)
                continue
            keep = [x for x in r if sp[x] is None]
            k = len(r)
            nt = []
            for idx in range(1 << len(keep)):
                bits = {x: (idx >> (len(keep) - 1 - p)) & 1 for p, x in enumerate(keep)}
                oi = 0
                for x in r:
                    oi = (oi << 1) | (bits[x] if x in bits else sp[x])
                nt.append(t[oi])
            regs.append([pos[x] for x in keep])
            tabs.append(tuple(nt))
        return Net([self.names[i] for i in free], regs, tabs), free

    def is_maa(self, a):
        return not any(self.attr_in_space(a, t) for t in self.min_traps())

    def to_json(self):
        return {
            "names": list(self.names),
            "regs": [list(r) for r in self.regs],
            "tables": [None if t is None else list(t) for t in self.tables],
        }

    @staticmethod
    def from_json(j):
        return Net(j["names"], j["regs"], j["tables"])

    def key(self):
        return (tuple(self.names), tuple(tuple(r) for r in self.regs), tuple(self.tables))


class RefSD:
    """Reference succession diagram (DESIGN Appendix A)."""

    def __init__(self, net: Net):
        self.net = net
        self.traps = net.trap_spaces()
        self.src = net.sources()
        self.root = net.perc(net.whole())
        self.children = {}
        self.motifs = {}
        todo = [self.root]
        while todo:
            x = todo.pop()
            if x in self.children:
                continue
            ch = self.expand(x)
            self.children[x] = sorted(ch, key=_spkey)
            for y, ms in ch.items():
                self.motifs[(x, y)] = ms
                todo.append(y)

    def expand(self, x):
        """successors of an arbitrary (percolated trap) space x -> {child: [motifs]}"""
        net = self.net
        fam = [t for t in self.traps if t != x and net.sub(t, x)]
        if x == self.root:
            fam = [t for t in fam if all(t[i] is not None for i in self.src)]
        mx = net.maximal(fam)
        ch = {}
        for m in mx:
            ch.setdefault(net.perc(m), []).append(m)
        return ch

    def nodes(self):
        return list(self.children)

    def leaves(self):
        return [x for x, c in self.children.items() if not c]

    def edges(self):
        return [(x, y) for x, c in self.children.items() for y in c]

    def descendants(self, x):
        seen = set()
        st = [x]
        while st:
            y = st.pop()
            for z in self.children[y]:
                if z not in seen:
                    seen.add(z)
                    st.append(z)
        return seen

    def depth(self):
        memo = {}

        def d(x):
            if x not in memo:
                memo[x] = 0
                preds = [p for p, c in self.children.items() if x in c]
                memo[x] = 0 if not preds else 1 + max(d(p) for p in preds)
            return memo[x]

        return {x: d(x) for x in self.children}


def _spkey(sp):
    return tuple(-1 if v is None else v for v in sp)


def node_attractors(net: Net, space, succ_spaces):
    """attractors inside ``space`` and not inside any of ``succ_spaces``"""
    return [
        a
        for a in net.attractors()
        if net.attr_in_space(a, space)
        and not any(net.attr_in_space(a, c) for c in succ_spaces)
    ]


def self_check(net: Net):
    """cheap internal cross-checks of the oracle (two formulations of each notion)"""
    for sp in net.all_spaces():
        a = net.is_trap(sp)
        b = net.is_trap_by_closure(sp)
        if a != b:
            raise AssertionError(f"oracle self-check: trap definitions disagree on {sp}")
    for a in net.attractors():
        r = net.reach([next(iter(a))])
        if r != set(a):
            raise AssertionError("oracle self-check: attractor is not closed/strongly connected")
    return True
