"""
History interpreter: a *history* is a JSON list of steps (API calls with generated
arguments).  Node arguments are integers resolved modulo ``len(sd)`` at execution time,
so that shrinking a history keeps it executable (model-based generation without
rejection).  Used by the history-quantified properties (C03-C05, C12-C16, C20).
"""

from __future__ import annotations

import pickle

from hypothesis import strategies as st

from .adapter import to_bn
from .bb import BBError, Nonterminating, call
from .guard import DEFAULT_LIMIT
from .oracle import Net

LIMITS = (None, None, None, 0, 1, 2, 3, 4, 6, 8)

PLAIN_OPS = ("succ", "bfs", "dfs", "min", "attr", "target", "block_plain")
SKIP_OPS = ("skip", "skiprem", "minskip")
ATTR_OPS = ("cands", "seeds", "sets", "allseeds", "expseeds", "expsets", "expcands")
STRUCT_OPS = ("block", "scc", "build")
AUX_OPS = ("reclaim", "pickle")


@st.composite
def step(draw, ops, n):
    op = draw(st.sampled_from(ops))
    s = {"op": op}
    if op in ("succ", "skip", "cands", "seeds", "sets"):
        s["node"] = draw(st.integers(0, 11))
    if op == "bfs":
        s["node"] = draw(st.sampled_from((None, None, 0, 1, 2, 3, 5)))
        s["level"] = draw(st.sampled_from((None, None, 0, 1, 2)))
        s["size"] = draw(st.sampled_from(LIMITS))
    elif op == "dfs":
        s["node"] = draw(st.sampled_from((None, None, 0, 1, 2, 3, 5)))
        s["stack"] = draw(st.sampled_from((None, None, 0, 1, 2, 3)))
        s["size"] = draw(st.sampled_from(LIMITS))
    elif op == "min":
        s["node"] = draw(st.sampled_from((None, None, None, 1, 2, 3)))
        s["size"] = draw(st.sampled_from(LIMITS))
    elif op == "minskip":
        s["node"] = draw(st.sampled_from((None, None, None, 1, 2, 3)))
        s["size"] = draw(st.sampled_from(LIMITS))
    elif op == "attr":
        s["size"] = draw(st.sampled_from(LIMITS))
    elif op == "target":
        s["target_sp"] = draw(_target(n))
        s["size"] = draw(st.sampled_from(LIMITS))
    elif op == "block_plain":
        s["maa"] = draw(st.booleans())
        s["size"] = draw(st.sampled_from(LIMITS))
    elif op == "block":
        s["maa"] = draw(st.booleans())
        s["size"] = draw(st.sampled_from(LIMITS))
        s["optsrc"] = draw(st.booleans())
        s["exact"] = draw(st.sampled_from((False, False, True)))
    elif op == "scc":
        s["maa"] = draw(st.booleans())
    elif op == "cands":
        s["greedy"] = draw(st.booleans())
        s["sim"] = draw(st.booleans())
    elif op == "seeds":
        s["fallback"] = draw(st.sampled_from((False, False, True)))
    elif op == "allseeds":
        s["order"] = draw(st.sampled_from(("id", "rev", "rot")))
    elif op == "setcfg":
        s["key"] = draw(st.sampled_from(("max_motifs_per_node", "attractor_candidates_limit", "minimum_simulation_budget")))
        s["val"] = draw(st.sampled_from((1, 2, 3, 4, 50)))
    elif op == "control":
        s["target_sp"] = draw(_target(n))
        s["strategy"] = draw(st.sampled_from(("internal", "all")))
        s["maxd"] = draw(st.sampled_from((None, None, 0, 1, 2)))
    return s


@st.composite
def _target(draw, n):
    vals = [draw(st.sampled_from((None, None, 0, 1))) for _ in range(n)]
    if all(v is None for v in vals):
        vals[draw(st.integers(0, n - 1))] = draw(st.integers(0, 1))
    return vals


def steps(ops, n, min_size=1, max_size=6):
    return st.lists(step(ops, n), min_size=min_size, max_size=max_size)


class StepOutcome:
    __slots__ = ("ret", "exc", "kind")

    def __init__(self, ret=None, exc=None, kind="ok"):
        self.ret = ret
        self.exc = exc
        self.kind = kind  # ok | runtime_error | key_error | bb_error


class History:
    """executes steps on a SuccessionDiagram built from an oracle Net"""

    def __init__(self, net: Net, config=None, via="bnet", limit=DEFAULT_LIMIT):
        from biobalm import SuccessionDiagram

        self.net = net
        if limit == DEFAULT_LIMIT:
            # the protective bound of the non-C13 checks scales with the state space like C13's B(n, N)
            from .guard import work_bound

            limit = max(DEFAULT_LIMIT, work_bound(net.n, 64))
        self.limit = limit
        cfg = None
        if config:
            cfg = SuccessionDiagram.default_config()
            cfg.update(config)
        self.config = cfg
        has_free = any(t is None for t in net.tables)
        bn = to_bn(net, via="api" if (has_free or via == "api") else "bnet")
        # (no configuration requested -> the documented default path `config=None`)
        self.sd = call(SuccessionDiagram, bn, cfg, limit=limit)

    def node(self, k):
        if k is None:
            return None
        return k % len(self.sd)

    def apply(self, s) -> StepOutcome:
        """returns StepOutcome; RuntimeError (documented resource limit / solver failure) is an outcome,
        anything else escapes as BBError / Nonterminating"""
        try:
            return StepOutcome(ret=self._apply(s))
        except RuntimeError as e:
            return StepOutcome(exc=e, kind="runtime_error")

    def _apply(self, s):
        sd = self.sd
        op = s["op"]
        net = self.net
        c = lambda fn, *a, **kw: call(fn, *a, limit=self.limit, expect=(RuntimeError,), **kw)  # noqa
        if op == "succ":
            return sorted(c(sd.node_successors, self.node(s["node"]), compute=True))
        if op == "bfs":
            return c(sd.expand_bfs, self.node(s["node"]), s["level"], s["size"])
        if op == "dfs":
            return c(sd.expand_dfs, self.node(s["node"]), s["stack"], s["size"])
        if op == "min":
            return c(sd.expand_minimal_spaces, self.node(s["node"]), s["size"], False)
        if op == "minskip":
            return c(sd.expand_minimal_spaces, self.node(s["node"]), s["size"], True)
        if op == "attr":
            return c(sd.expand_attractor_seeds, s["size"])
        if op == "target":
            return c(sd.expand_to_target, net.sp2d(tuple(s["target_sp"])), s["size"])
        if op == "block_plain":
            return c(sd.expand_block, s["maa"], s["size"], False, False)
        if op == "block":
            return c(sd.expand_block, s["maa"], s["size"], s["optsrc"], s["exact"])
        if op == "scc":
            return c(sd.expand_scc, s["maa"])
        if op == "build":
            return c(sd.build)
        if op == "skip":
            return c(sd.skip_to_minimal, self.node(s["node"]))
        if op == "skiprem":
            return c(sd.skip_remaining)
        if op == "cands":
            return c(
                sd.node_attractor_candidates,
                self.node(s["node"]),
                compute=True,
                greedy_asp_minification=s["greedy"],
                simulation_minification=s["sim"],
            )
        if op == "seeds":
            return c(sd.node_attractor_seeds, self.node(s["node"]), compute=True, symbolic_fallback=s["fallback"])
        if op == "sets":
            return c(sd.node_attractor_sets, self.node(s["node"]), compute=True)
        if op == "allseeds":
            ids = list(sd.node_ids())
            if s["order"] == "rev":
                ids.reverse()
            elif s["order"] == "rot" and ids:
                ids = ids[len(ids) // 2 :] + ids[: len(ids) // 2]
            return {i: c(sd.node_attractor_seeds, i, compute=True) for i in ids}
        if op == "expseeds":
            return c(sd.expanded_attractor_seeds)
        if op == "expsets":
            return {k: len(v) for k, v in c(sd.expanded_attractor_sets).items()}
        if op == "expcands":
            return c(sd.expanded_attractor_candidates)
        if op == "reclaim":
            return c(sd.reclaim_node_data)
        if op == "pickle":
            self.sd = call(lambda: pickle.loads(pickle.dumps(sd)), limit=self.limit)
            return None
        if op == "control":
            from biobalm.control import succession_control

            return c(
                succession_control,
                sd,
                net.sp2d(tuple(s["target_sp"])),
                strategy=s["strategy"],
                max_drivers_per_succession_node=s["maxd"],
            )
        if op == "setcfg":
            # a user adjusting a limit of THIS diagram in place (sd.config is a public attribute)
            sd.config[s["key"]] = s["val"]
            return None
        if op == "summary":
            return c(sd.summary)
        raise ValueError(f"unknown op {op}")


def fmt_step(s):
    return s["op"] + "(" + ",".join(f"{k}={v}" for k, v in s.items() if k != "op") + ")"


def fmt_steps(ss):
    return "; ".join(fmt_step(s) for s in ss)
