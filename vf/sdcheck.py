"""
Reusable oracles over a biobalm SuccessionDiagram, expressed against the brute-force
reference model.  All functions only *read* the diagram (compute=False accessors).
"""

from __future__ import annotations

from collections import Counter

from .bb import fmt_space, full_state, sd_space
from .oracle import Net, RefSD, node_attractors


def node_spaces(sd, net: Net):
    return [sd_space(net, sd.node_data(i)["space"]) for i in sd.node_ids()]


def succ_map(sd):
    return {i: sorted(sd.dag.successors(i)) for i in sd.node_ids()}


def check_partial(sd, net: Net, ref: RefSD, res, tag="partial"):
    """C04 invariants (i)-(iii): every node is a reference node and occurs once; expanded
    => successors and per-edge motif multisets equal the reference; unexpanded => no out-edges.
    Returns False if something was flagged."""
    ok = True
    spaces = node_spaces(sd, net)
    cnt = Counter(spaces)
    dup = [s for s, c in cnt.items() if c > 1]
    if dup:
        res.violate(f"{tag}:duplicate-node", spaces=[fmt_space(net, s) for s in dup])
        ok = False
    refnodes = ref.children
    for i, sp in enumerate(spaces):
        d = sd.node_data(i)
        succ = sorted(sd.dag.successors(i))
        if sp not in refnodes:
            res.violate(f"{tag}:node-not-in-reference", node=i, space=fmt_space(net, sp))
            ok = False
            continue
        if not d["expanded"]:
            if succ:
                res.violate(f"{tag}:unexpanded-node-has-successors", node=i, space=fmt_space(net, sp))
                ok = False
            continue
        got = sorted((spaces[j] for j in succ), key=str)
        exp = sorted(refnodes[sp], key=str)
        if got != exp:
            res.violate(
                f"{tag}:expanded-node-wrong-successors",
                node=i,
                space=fmt_space(net, sp),
                got=[fmt_space(net, s) for s in got],
                expected=[fmt_space(net, s) for s in exp],
            )
            ok = False
            continue
        for j in succ:
            ms = [sd_space(net, m) for m in sd.edge_all_stable_motifs(i, j)]
            em = ref.motifs[(sp, spaces[j])]
            if Counter(ms) != Counter(em):
                res.violate(
                    f"{tag}:edge-motifs",
                    edge=[i, j],
                    parent=fmt_space(net, sp),
                    child=fmt_space(net, spaces[j]),
                    got=[fmt_space(net, s) for s in ms],
                    expected=[fmt_space(net, s) for s in em],
                )
                ok = False
            m1 = sd_space(net, sd.edge_stable_motif(i, j))
            if m1 not in em:
                res.violate(f"{tag}:edge-motif-not-a-motif", edge=[i, j], got=fmt_space(net, m1))
                ok = False
    return ok


def check_full(sd, net: Net, ref: RefSD, res, tag="full"):
    """equality with the reference diagram (C02 / C04-(iv))"""
    ok = check_partial(sd, net, ref, res, tag)
    spaces = node_spaces(sd, net)
    unexp = [i for i in sd.node_ids() if not sd.node_data(i)["expanded"]]
    if unexp:
        res.violate(f"{tag}:unexpanded-nodes-remain", nodes=unexp)
        ok = False
    if spaces and spaces[0] != ref.root:
        res.violate(f"{tag}:root", got=fmt_space(net, spaces[0]), expected=fmt_space(net, ref.root))
        ok = False
    missing = set(ref.children) - set(spaces)
    if missing:
        res.violate(f"{tag}:missing-nodes", missing=[fmt_space(net, s) for s in sorted(missing, key=str)])
        ok = False
    for i, sp in enumerate(spaces):
        if not net.is_trap(sp):
            res.violate(f"{tag}:node-not-trap-space", node=i, space=fmt_space(net, sp))
            ok = False
        elif net.perc(sp) != sp:
            res.violate(f"{tag}:node-not-percolated", node=i, space=fmt_space(net, sp))
            ok = False
    return ok


def check_minimal(sd, net: Net, res, tag="min"):
    """minimal_trap_spaces() == oracle's inclusion-minimal trap spaces, duplicate-free;
    node_is_minimal(i) <=> space(i) minimal, for expanded i"""
    ok = True
    spaces = node_spaces(sd, net)
    mts = set(net.min_traps())
    ids = sd.minimal_trap_spaces()
    got = [spaces[i] for i in ids]
    if len(got) != len(set(got)) or len(ids) != len(set(ids)):
        res.violate(f"{tag}:duplicate-minimal", got=[fmt_space(net, s) for s in got])
        ok = False
    if set(got) - mts:
        res.violate(f"{tag}:spurious-minimal", spurious=[fmt_space(net, s) for s in sorted(set(got) - mts, key=str)])
        ok = False
    if mts - set(got):
        res.violate(f"{tag}:missing-minimal", missing=[fmt_space(net, s) for s in sorted(mts - set(got), key=str)])
        ok = False
    for i in sd.expanded_ids():
        if bool(sd.node_is_minimal(i)) != (spaces[i] in mts):
            res.violate(f"{tag}:node_is_minimal-wrong", node=i, space=fmt_space(net, spaces[i]), got=bool(sd.node_is_minimal(i)))
            ok = False
    return ok


def seeds_to_states(net: Net, seeds):
    """list of seed dicts -> list of int states (None where not a full state)"""
    return [full_state(net, s) for s in seeds]


def check_seeds_exact(sd, net: Net, i, seeds, res, tag, spaces=None):
    """seeds of node i <-> attractors inside node i and in none of its current successors, one-to-one"""
    if spaces is None:
        spaces = node_spaces(sd, net)
    sp = spaces[i]
    succ_spaces = [spaces[j] for j in sd.dag.successors(i)]
    exp = node_attractors(net, sp, succ_spaces)
    ok = True
    hit = Counter()
    for s in seeds:
        st_ = full_state(net, s)
        if st_ is None:
            res.violate(f"{tag}:seed-not-full-state", node=i, seed=str(s))
            ok = False
            continue
        a = net.attractor_of_state(st_)
        if a is None:
            res.violate(f"{tag}:seed-not-in-attractor", node=i, seed=net.state_tuple(st_), space=fmt_space(net, sp))
            ok = False
            continue
        if not net.attr_in_space(a, sp):
            res.violate(f"{tag}:seed-attractor-outside-node", node=i, seed=net.state_tuple(st_), space=fmt_space(net, sp))
            ok = False
            continue
        if any(net.attr_in_space(a, c) for c in succ_spaces):
            res.violate(f"{tag}:seed-attractor-inside-successor", node=i, seed=net.state_tuple(st_), space=fmt_space(net, sp))
            ok = False
            continue
        hit[a] += 1
    for a in exp:
        if hit[a] == 0:
            res.violate(
                f"{tag}:attractor-missed",
                node=i,
                space=fmt_space(net, sp),
                attractor=sorted(net.state_tuple(s) for s in a)[:4],
                n_seeds=len(seeds),
            )
            ok = False
        elif hit[a] > 1:
            res.violate(f"{tag}:attractor-twice", node=i, space=fmt_space(net, sp))
            ok = False
    return ok


def longest_depths(sd):
    """longest root->node path lengths recomputed from the DAG (topological DP)"""
    import networkx as nx

    depth = {}
    for v in nx.topological_sort(sd.dag):
        preds = list(sd.dag.predecessors(v))
        depth[v] = 0 if not preds else 1 + max(depth[p] for p in preds)
    return depth


def check_cache(sd, net: Net, res, tag="cache"):
    """C14 invariant: whatever candidates/seeds/sets a node holds (compute=False view) is correct for the node's
    CURRENT successors: exact for ordinary nodes, sound and duplicate-free for skip nodes."""
    from .adapter import vertex_set_states

    ok = True
    spaces = node_spaces(sd, net)
    for i in sd.node_ids():
        d = sd.node_data(i)
        seeds, cands, sets = d["attractor_seeds"], d["attractor_candidates"], d["attractor_sets"]
        if seeds is None and cands is None and sets is None:
            continue
        sp = spaces[i]
        succ_spaces = [spaces[j] for j in sd.dag.successors(i)]
        kind = "skip" if d["skipped"] else ("expanded" if d["expanded"] else "stub")
        exp = node_attractors(net, sp, succ_spaces)
        if kind != "skip":
            if seeds is not None:
                if not check_seeds_exact(sd, net, i, seeds, res, f"{tag}:{kind}:seeds", spaces):
                    ok = False
            if cands is not None:
                cst = []
                for c in cands:
                    st_ = full_state(net, c)
                    if st_ is None or not net.in_space(st_, sp):
                        res.violate(f"{tag}:{kind}:candidate-not-a-state-of-node", node=i, cand=str(c), space=fmt_space(net, sp))
                        ok = False
                    else:
                        cst.append(st_)
                for a in exp:
                    if not any(c in a for c in cst):
                        res.violate(
                            f"{tag}:{kind}:candidates-miss-attractor",
                            node=i,
                            space=fmt_space(net, sp),
                            n_cands=len(cands),
                            attractor=sorted(net.state_tuple(s) for s in a)[:3],
                        )
                        ok = False
        else:
            if seeds is not None:
                seen = Counter()
                for s in seeds:
                    st_ = full_state(net, s)
                    a = net.attractor_of_state(st_) if st_ is not None else None
                    if a is None or not net.attr_in_space(a, sp):
                        res.violate(f"{tag}:skip:seed-not-in-attractor-of-node", node=i, seed=str(s), space=fmt_space(net, sp))
                        ok = False
                        continue
                    seen[a] += 1
                    if any(net.attr_in_space(a, c) for c in succ_spaces):
                        res.violate(f"{tag}:skip:seed-attractor-inside-successor", node=i, seed=str(s), space=fmt_space(net, sp))
                        ok = False
                if any(v > 1 for v in seen.values()):
                    res.violate(f"{tag}:skip:two-seeds-one-attractor", node=i, space=fmt_space(net, sp))
                    ok = False
        if sets is not None:
            try:
                got = [frozenset(net.state_from_dict(dict(t)) for t in vertex_set_states(sd, vs)) for vs in sets]
            except Exception as e:  # noqa
                res.violate(f"{tag}:{kind}:sets-not-enumerable", node=i, error=str(e))
                ok = False
                continue
            if seeds is not None:
                if len(got) != len(seeds):
                    res.violate(f"{tag}:{kind}:sets-seeds-length", node=i, n_sets=len(got), n_seeds=len(seeds))
                    ok = False
                else:
                    for k, (g, s) in enumerate(zip(got, seeds)):
                        st_ = full_state(net, s)
                        a = net.attractor_of_state(st_) if st_ is not None else None
                        if a is not None and g != a:
                            res.violate(
                                f"{tag}:{kind}:set-differs-from-attractor-of-seed",
                                node=i,
                                index=k,
                                got_size=len(g),
                                expected_size=len(a),
                                space=fmt_space(net, sp),
                            )
                            ok = False
            if kind != "skip":
                if Counter(got) != Counter(exp):
                    res.violate(f"{tag}:{kind}:sets-wrong", node=i, space=fmt_space(net, sp), got_sizes=sorted(len(g) for g in got), expected_sizes=sorted(len(a) for a in exp))
                    ok = False
            else:
                for g in got:
                    if g not in set(net.attractors()) or any(net.attr_in_space(g, c) for c in succ_spaces):
                        res.violate(f"{tag}:skip:set-stale-or-not-attractor", node=i, space=fmt_space(net, sp))
                        ok = False
    return ok
