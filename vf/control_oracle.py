"""Reference model of succession control (DESIGN.md C06/C07), over the brute-force oracle."""

from __future__ import annotations

import itertools

from .oracle import Net, RefSD


def ref_successions(net: Net, ref: RefSD, target):
    """expected successions (lists of reduced motifs as space tuples) for a FRESH diagram"""
    exp = set()
    seen = {ref.root}
    level = [ref.root]
    while level:
        nxt = []
        for x in level:
            if net.inter(x, target) is None:
                continue
            if net.sub(x, target) and x != target:
                continue
            exp.add(x)
            for y in ref.children[x]:
                if y not in seen:
                    seen.add(y)
                    nxt.append(y)
        level = nxt
    succ = {x: (ref.children[x] if x in exp else []) for x in seen}
    desc = {}

    def D(x):
        if x in desc:
            return desc[x]
        r = {x}
        for y in succ[x]:
            r |= D(y)
        desc[x] = r
        return r

    hot = {x for x in seen if net.inter(x, target) is None or (x in exp and not succ[x] and not net.sub(x, target))}
    preds = {x: [p for p in seen if x in succ[p]] for x in seen}
    out = []
    found = False
    for s in seen:
        if D(s) & hot:
            continue
        found = True
        if not any(D(p) & hot for p in preds[s]):
            continue

        def paths(x):
            if x == s:
                yield [x]
                return
            for y in succ[x]:
                if s in D(y):
                    for p in paths(y):
                        yield [x] + p

        for p in paths(ref.root):
            lists = []
            for a, b in zip(p[:-1], p[1:]):
                lists.append([tuple(None if a[i] is not None else m[i] for i in range(net.n)) for m in ref.motifs[(a, b)]])
            for combo in itertools.product(*lists):
                out.append(list(combo))
    if found and not out:
        out = [[]]
    return out, {"expanded": len(exp), "seen": len(seen)}


def ref_drivers(net: Net, succession, strategy, K, forbidden_names):
    """expected override sets per step: list (per step) of sorted lists of ((var, val), ...) tuples"""
    F = net.whole()
    res = []
    for m in succession:
        inner = [i for i in range(net.n) if m[i] is not None and F[i] is None]
        pool = [i for i in (inner if strategy == "internal" else range(net.n)) if net.names[i] not in forbidden_names]
        k = len(inner) if K is None else K

        def admits(V):
            outs = []
            vals = [tuple(m[i] for i in V)] if strategy == "internal" else itertools.product((0, 1), repeat=len(V))
            for vs in vals:
                d = list(F)
                for i, v in zip(V, vs):
                    if F[i] is None:
                        d[i] = v
                L = net.perc(tuple(d))
                if all(m[i] is None or L[i] == m[i] for i in range(net.n)):
                    outs.append(tuple(sorted(zip(V, vs))))
            return outs

        found = []
        minsets = []
        for size in range(0, k + 1):
            for V in itertools.combinations(pool, size):
                if any(set(W) <= set(V) for W in minsets):
                    continue
                a = admits(V)
                if a:
                    minsets.append(V)
                    found += a
        res.append(sorted(found))
        mm = list(F)
        for i in range(net.n):
            if m[i] is not None and mm[i] is None:
                mm[i] = m[i]
        F = net.perc(tuple(mm))
    return res
